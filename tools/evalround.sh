#!/bin/bash
# usage: tools/evalround.sh <letters> <props...>    e.g. tools/evalround.sh "P Q" C01 C02
# For each property evaluates /tmp/mut/<prop>/<letter> in the scratch worktree /tmp/wt/m-<prop> with tools/evalmut.sh:
# first the property's own check; when that does not catch the change, the neighbouring checks as well.
letters=$1; shift
cd /verif
neigh() {
  case $1 in
    C01|C02|C03|C04|C05|C06|C07) echo "C01 C02 C03 C04 C05 C06 C07 C09 C12" ;;
    C08|C09) echo "C01 C03 C08 C09 C11 C12" ;;
    C10) echo "C09 C10 C12" ;;
    C11) echo "C08 C09 C10 C11 C13" ;;
    C12) echo "C02 C03 C10 C12 C13 C17" ;;
    C13) echo "C06 C11 C13 C15 C20" ;;
    C14|C15) echo "C14 C15 C18" ;;
    C16|C17) echo "C16 C17 C18 C19" ;;
    C18|C19) echo "C16 C18 C19" ;;
    C20) echo "C13 C20" ;;
  esac
}
for p in "$@"; do
  for l in $letters; do
    d=${MUT_DIR:-/tmp/mut}/$p/$l
    [ -f $d/patch.diff ] || { echo "$d: no patch"; continue; }
    out=$(MUT_WT=/tmp/wt/m-$p tools/evalmut.sh $d $p 2>&1)
    echo "$out"
    if ! echo "$out" | grep -q "^   $p rc=1"; then
      others=$(neigh $p | tr ' ' '\n' | grep -v "^$p$" | tr '\n' ' ')
      MUT_WT=/tmp/wt/m-$p tools/evalmut.sh $d $others 2>&1 | grep -v "^/tmp/mut"
    fi
  done
done
