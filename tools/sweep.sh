#!/bin/bash
# usage: [CHECKS="01 02"] tools/sweep.sh <tier> <seed>...   runs every check (or the listed ones) with the given seeds, prints one line per run
tier=$1; shift
for seed in "$@"; do
  for i in ${CHECKS:-$(seq -w 1 20)}; do
    s=$(date +%s)
    out=$(VERIF_SEED=$seed timeout 7200 ./vcheck C$i --tier $tier 2>&1); rc=$?
    echo "seed=$seed C$i rc=$rc $(( $(date +%s) - s ))s $(echo "$out" | grep -c '^VIOLATION') viol | $(echo "$out" | grep 'INFRA\|^VIOLATION' | head -2 | cut -c1-200)"
  done
done
