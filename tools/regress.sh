#!/bin/bash
# usage: tools/regress.sh [ids...]   re-runs every seeded change under /verif/seeded against the checks recorded as catching it
# (4 scratch worktrees of /repo under /tmp/wt/reg<k>, removed at the end); prints one line per change.
cd /verif
ids=("$@"); if [ ${#ids[@]} -eq 0 ]; then ids=($(ls seeded)); fi
for k in 0 1 2 3; do [ -d /tmp/wt/reg$k ] || git -C /repo worktree add -q --detach /tmp/wt/reg$k HEAD; done
worker() {
  k=$1; shift
  for id in "$@"; do
    checks=$(python3 -c "import json;print(' '.join(json.load(open('seeded/$id/meta.json'))['caught_by']))")
    out=$(MUT_WT=/tmp/wt/reg$k tools/runmut.sh /verif/seeded/$id $checks 2>&1)
    echo "$id [$checks] $(echo "$out" | grep -E '^== |DOES NOT|FAIL' | tr '\n' ' ' | cut -c1-200)"
  done
}
n=${#ids[@]}
for k in 0 1 2 3; do
  sub=(); for ((i=k; i<n; i+=4)); do sub+=("${ids[$i]}"); done
  worker $k "${sub[@]}" > .work/regress_$k.log 2>&1 &
done
wait
cat .work/regress_[0-3].log | sort
for k in 0 1 2 3; do git -C /repo worktree remove --force /tmp/wt/reg$k; done
