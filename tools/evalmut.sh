#!/bin/bash
# usage: tools/evalmut.sh <mutant dir> <checks...>
# Confirms a seeded change in a scratch worktree (demo passes without / fails with it, repo tests pass with it),
# then runs the given checks against the worktree.  Prints a one-line summary per step.
set -u
D=$(readlink -f "$1"); shift
W=${MUT_WT:-/tmp/wt/eval}
export GOFLAGS=-mod=mod GOPROXY=off GOSUMDB=off GOTOOLCHAIN=local
cd $W || exit 3
git checkout -q --detach $(git -C /repo rev-parse HEAD) 2>/dev/null
git checkout -- . && git clean -fdq
pk=$(grep -m1 '^package ' $D/demo_test.go | awk '{print $2}')
case $pk in
  numscript_test|numscript) dir=. ;;
  parser|parser_test) dir=internal/parser ;;
  analysis|analysis_test) dir=internal/analysis ;;
  interpreter|interpreter_test) dir=internal/interpreter ;;
  lsp|lsp_test) dir=internal/lsp ;;
  cmd|cmd_test) dir=internal/cmd ;;
  *) dir=. ;;
esac
cp $D/demo_test.go $dir/zz_demo_test.go
clean=$(go test -vet=off -count=1 ./$dir 2>&1 | tail -3)
if echo "$clean" | grep -q "^ok"; then c1=pass; else c1=FAIL; fi
rm -f $dir/zz_demo_test.go
if ! git apply --check "$D/patch.diff" 2>/dev/null; then echo "$D: PATCH DOES NOT APPLY"; exit 3; fi
git apply "$D/patch.diff"
trap 'cd $W && git checkout -- . && git clean -fdq' EXIT
files=$(git diff --stat | head -5 | tr '\n' ';')
T=$(go test -vet=off -count=1 ./... 2>&1 | grep -v "no test files" | grep -v "^ok" | head -3)
if [ -n "$T" ]; then t1=FAIL; else t1=pass; fi
cp $D/demo_test.go $dir/zz_demo_test.go
mut=$(go test -vet=off -count=1 ./$dir 2>&1 | tail -3)
if echo "$mut" | grep -q "^ok"; then c2=PASS; else c2=fail; fi
rm -f $dir/zz_demo_test.go
echo "$D: demo clean=$c1 mutant=$c2 repo-tests=$t1 | $files"
cd ${VERIF_DIR:-/verif}
for c in "$@"; do
  out=$(VERIF_REPO=$W timeout 1500 ./vcheck $c 2>&1); rc=$?
  echo "   $c rc=$rc $(echo "$out" | grep -c '^VIOLATION') viol | $(echo "$out" | grep -A1 '^VIOLATION\|INFRA' | grep -v '^VIOLATION' | head -1 | cut -c1-160)"
done
