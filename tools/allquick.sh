#!/bin/bash
# usage: tools/allquick.sh [tier] [jobs]   runs every check once against /repo (evidence/ is rewritten), <jobs> at a time
tier=${1:-quick}; jobs=${2:-4}
cd "$(dirname "$0")/.."
seq -w 1 20 | xargs -P $jobs -I{} bash -c 's=$(date +%s); out=$(timeout 7200 ./vcheck C{} --tier '$tier' 2>&1); rc=$?; echo "C{} rc=$rc $(( $(date +%s) - s ))s $(echo "$out" | grep -c "^VIOLATION") viol $(echo "$out" | grep -c "^KNOWN-FINDING") known | $(echo "$out" | grep "INFRA\|^VIOLATION" | head -2 | cut -c1-200)"'
