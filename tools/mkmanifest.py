import json
checks = {
 "C01": ("model_checking", "TLC proves on Sem.tla (bounded families of two-statement programs, all balance relations) that the reference semantics never overdraws, and TLC evaluates the replay bound - a formula independent of the drawing semantics - on the real postings of thousands of generated multi-statement executions per run.", "4, C01", "TLC trace validation of real runs + design-level TLC model checking"),
 "C02": ("model_checking", "TLC checks positivity/asset/name of every posting of the semantics on bounded program families and of every real posting (per statement, attributed by the hook) of generated executions incl. negative caps, kept, negative balances.", "4, C02", "TLC trace validation of real runs + design-level TLC model checking"),
 "C03": ("model_checking", "TLC proves the capacity lemma (draw is greedy up to an independently stated capacity; failure iff amount exceeds it) on the exhaustive source family and judges real per-statement sums and the MissingFunds biconditional against it on generated fixed-amount sends.", "4, C03", "TLC trace validation of real runs against Sem.tla + design-level TLC model checking"),
 "C04": ("model_checking", "TLC proves greedy-draw lemmas on the exhaustive source family (both modes) and compares real per-account debit totals with the specification's draw on a corpus whose destination is one plain account.", "4, C04", "TLC trace validation of real runs against Sem.tla + design-level TLC model checking"),
 "C06": ("model_checking", "TLC proves the share lemmas (sum, floor/floor+1, leftmost +1s, remaining, rejected sums) for every portion vector over small denominators x totals against an independent statement; Apalache proves them for symbolic n in Nat per vector (beyond 2^64); real single-allotment sends (literal, percent, variable portions; both sides) are judged by TLC.", "4, C06", "TLC model checking + Apalache (unbounded n) + TLC trace validation of real runs"),
 "C07": ("model_checking", "Reconcile.tla (small-step machine of reconciler.go) is model-checked to refine the declarative pairing Sem!Pair incl. kept spanning several senders and termination; TLC prints every initial state (all short lists) and the real interpreter.Reconcile is run on each and judged by TLC; whole sends are judged on flow matrices.", "4, C07", "TLC refinement check + TLC-generated behaviours replayed into interpreter.Reconcile + TLC trace validation"),
 "C08": ("model_checking", "TLC proves on program families that saved funds cannot be moved without an overdraft grant; for real runs, at every split right after a save, the whole execution is compared with the remaining statements run alone on the visible balance TLC prints from the specification state (save formula), guarded by a save-deleted control so that only save is judged.", "4, C08", "TLC-printed intermediate states + real-vs-real executions judged by TLC (SplitTrace.tla)"),
 "C09": ("model_checking", "For every split point of generated multi-statement scripts TLC prints the specification state (starting balances updated by the logged postings and save reservations); prefix and suffix are executed alone and TLC checks whole = prefix ++ suffix on postings and key-wise metadata merge.", "4, C09", "TLC-printed intermediate states + real-vs-real executions judged by TLC (SplitTrace.tla)"),
 "C05": ("model_checking", "TLC proves clause-by-clause distribution lemmas on the exhaustive destination family and compares real per-account credit totals with the specification's distribution on a corpus drawn from @world.", "4, C05", "TLC trace validation of real runs against Sem.tla + design-level TLC model checking"),
}
m = {
 "version": 1,
 "setup_cmd": "true",
 "hooks": {"guard": "verif", "enable": "go build -tags verif (the harness adds vhooks when internal/interpreter/verif_on.go exists)",
           "baseline_off_cmd": "cd /repo && go test -vet=off -count=1 ./...", "source_commits": ["921c08e"], "add_only": True},
 "engines": [{"name": "vcheck", "path": "/verif/vcheck", "serves_properties": sorted(checks), "kind_free_text": "python3 runner: builds the Go harness from /repo, runs TLC (design-level model checking, trace validation, behaviour generation), confirms candidates, writes evidence"}],
 "checks": [], "notes": "See DESIGN.md. Exit 2 = infrastructure trouble, never a verdict.",
 "not_applicable": [{"property_id": p, "reason": "check under construction in this build phase (not yet claimed)"} for p in ["C%02d" % i for i in range(1, 21)] if p not in checks],
}
for p, (lvl, text, ref, tech) in sorted(checks.items()):
    m["checks"].append({"property_id": p, "quick_cmd": "./vcheck %s --tier quick" % p, "thorough_cmd": "./vcheck %s --tier thorough" % p,
        "evidence_file": "/verif/evidence/%s.json" % p, "replay_cmd_template": "./vcheck replay {path}", "engine": "vcheck",
        "level_claimed": {"category": lvl, "text": text, "design_ref": "DESIGN.md section " + ref},
        "level_note": "Trusted: TLC, the Json module, the harness projector/printer, the hook's attribution of postings to statements; integers below 2^31 in traces.",
        "technique": tech})
json.dump(m, open("/verif/MANIFEST.json", "w"), indent=1)
