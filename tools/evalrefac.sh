#!/bin/bash
# usage: MUT_WT=<worktree> tools/evalrefac.sh <refactoring dir> <checks...>
# Applies a behaviour-preserving change in a scratch worktree, confirms the repo tests pass, runs the checks
# against it: every check must exit 0 (an alarm here is a false alarm of the machinery).
set -u
D=$(readlink -f "$1"); shift
W=${MUT_WT:-/tmp/wt/eval}
export GOFLAGS=-mod=mod GOPROXY=off GOSUMDB=off GOTOOLCHAIN=local
cd $W || exit 3
git checkout -q --detach $(git -C /repo rev-parse HEAD) 2>/dev/null
git checkout -- . && git clean -fdq
if ! git apply --check "$D/patch.diff" 2>/dev/null; then echo "$D: PATCH DOES NOT APPLY"; exit 3; fi
git apply "$D/patch.diff"
trap 'cd $W && git checkout -- . && git clean -fdq' EXIT
files=$(git diff --stat | tail -1)
T=$(go test -vet=off -count=1 ./... 2>&1 | grep -v "no test files" | grep -v "^ok" | head -3)
if [ -n "$T" ]; then t1=FAIL; else t1=pass; fi
echo "$D: repo-tests=$t1 | $files"
cd ${VERIF_DIR:-/verif}
for c in "$@"; do
  out=$(VERIF_REPO=$W timeout 1500 ./vcheck $c 2>&1); rc=$?
  echo "   $c rc=$rc $(echo "$out" | grep -c '^VIOLATION') viol | $(echo "$out" | grep -A1 '^VIOLATION\|INFRA' | grep -v '^VIOLATION' | head -1 | cut -c1-200)"
done
