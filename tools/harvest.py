#!/usr/bin/env python3
"""Tolerant extractor of (script, balances, variables, metadata) from the repository's own interpreter tests.
Extraction failures only shrink the corpus.  usage: harvest.py <repo> <out.json>"""
import json, re, sys, os

def pairs(body):
    return dict(re.findall(r'"((?:[^"\\]|\\.)*)"\s*:\s*"((?:[^"\\]|\\.)*)"', body))

def main():
    repo, out = sys.argv[1], sys.argv[2]
    cases = []
    for rel in ("internal/interpreter/interpreter_test.go", "numscript_test.go"):
        p = os.path.join(repo, rel)
        if not os.path.exists(p):
            continue
        src = open(p, encoding="utf-8").read()
        chunks = re.split(r'NewTestCase\(\)', src)[1:]
        for ch in chunks:
            m = re.search(r'\.compile\(t,\s*`([^`]*)`\)', ch)
            if not m:
                continue
            # stop at the call that runs the case
            end = re.search(r'\n\s*test(WithFeatureFlag)?\(t, ', ch)
            body = ch[:end.start()] if end else ch
            case = {"text": m.group(1), "bal": {}, "vars": {}, "meta": {}, "flagovd": "ExperimentalOverdraftFunctionFeatureFlag" in ch[:(end.end() + 120) if end else len(ch)]}
            for a, asset, n in re.findall(r'\.setBalance\("([^"]+)",\s*"([^"]+)",\s*(-?\d+)\)', body):
                case["bal"].setdefault(a, {})[asset] = int(n)
            mv = re.search(r'setVarsFromJSON\(t,\s*`([^`]*)`\)', body)
            if mv:
                try:
                    case["vars"] = {k: str(v) for k, v in json.loads(mv.group(1)).items()}
                except Exception:
                    continue
            mv = re.search(r'\.vars = map\[string\]string\{([^}]*)\}', body)
            if mv:
                case["vars"].update(pairs(mv.group(1)))
            mm = re.search(r'\.meta = machine\.AccountsMetadata\{(.*?)\n\t\}', body, re.S)
            if mm:
                for acc, inner in re.findall(r'"([^"]+)":\s*\{([^{}]*)\}', mm.group(1)):
                    case["meta"][acc] = pairs(inner)
            cases.append(case)
    json.dump(cases, open(out, "w"))
    print(json.dumps({"harvested": len(cases)}))

main()
