#!/bin/bash
# usage: tools/runmut.sh <dir with patch.diff [demo_test.go notes.md]> <checks...>
# Applies a seeded change to /repo, runs the repo's own tests (must pass), the given checks, and restores /repo.
set -u
D=$1; shift
export GOFLAGS=-mod=mod GOPROXY=off GOSUMDB=off GOTOOLCHAIN=local
cd /repo
if [ -n "$(git status --porcelain)" ]; then echo "REPO DIRTY - abort"; exit 3; fi
if ! git apply --check "$D/patch.diff" 2>/dev/null; then echo "PATCH DOES NOT APPLY"; exit 3; fi
git apply "$D/patch.diff"
trap 'cd /repo && git checkout -- . && git clean -fdq' EXIT
if ! go build ./... 2>/tmp/mutbuild.err; then echo "MUTANT DOES NOT BUILD"; cat /tmp/mutbuild.err | head; exit 3; fi
T=$(go test -vet=off -count=1 ./... 2>&1 | grep -v "no test files" | grep -v "^ok" | head -5)
if [ -n "$T" ]; then echo "REPO TESTS FAIL WITH MUTANT:"; echo "$T"; fi
cd /verif
for c in "$@"; do
  out=$(timeout 1500 ./vcheck $c 2>&1); rc=$?
  echo "== $c rc=$rc $(echo "$out" | grep -c '^VIOLATION') violation(s)"
  echo "$out" | grep -A1 "^VIOLATION\|INFRA" | cut -c1-260 | head -4
done
