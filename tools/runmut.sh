#!/bin/bash
# usage: tools/runmut.sh <dir with patch.diff [demo_test.go notes.md]> <checks...>
# Applies a seeded change to a scratch worktree of /repo (never to /repo itself), runs the repo's own tests
# (must pass), then the given checks with VERIF_REPO pointing at the worktree, and restores the worktree.
set -u
D=$1; shift
W=${MUT_WT:-/tmp/wt/eval}
export GOFLAGS=-mod=mod GOPROXY=off GOSUMDB=off GOTOOLCHAIN=local
cd $W || exit 3
git checkout -q --detach $(git -C /repo rev-parse HEAD) 2>/dev/null
git checkout -- . && git clean -fdq
if ! git apply --check "$D/patch.diff" 2>/dev/null; then echo "PATCH DOES NOT APPLY"; exit 3; fi
git apply "$D/patch.diff"
trap 'cd $W && git checkout -- . && git clean -fdq' EXIT
if ! go build ./... 2>/tmp/mutbuild.err; then echo "MUTANT DOES NOT BUILD"; head /tmp/mutbuild.err; exit 3; fi
T=$(go test -vet=off -count=1 ./... 2>&1 | grep -v "no test files" | grep -v "^ok" | head -5)
if [ -n "$T" ]; then echo "REPO TESTS FAIL WITH MUTANT:"; echo "$T"; else echo "repo tests pass with mutant"; fi
cd ${VERIF_DIR:-/verif}
for c in "$@"; do
  out=$(VERIF_REPO=$W timeout 1500 ./vcheck $c 2>&1); rc=$?
  echo "== $c rc=$rc $(echo "$out" | grep -c '^VIOLATION') violation(s)"
  echo "$out" | grep -A1 "^VIOLATION\|INFRA" | cut -c1-260 | head -4
done
