#!/usr/bin/env python3
"""usage: storemut.py <evalmut log>...   (later logs override earlier ones for the same mutant)
Copies each evaluated seeded change from its scratch directory to /verif/seeded/<Cxx-M>/ with a meta.json."""
import json, os, re, shutil, sys
res = {}
for lp in sys.argv[1:]:
    cur = None
    for line in open(lp):
        m = re.match(r'(/tmp/mut7?/(C\d\d)/([A-Z])): demo clean=(\w+) mutant=(\w+) repo-tests=(\w+) \| (.*)', line)
        if m:
            cur = dict(dir=m.group(1), prop=m.group(2), m=m.group(3), clean=m.group(4), mut=m.group(5), tests=m.group(6), files=m.group(7).strip(), checks={})
            res[(cur["prop"], cur["m"])] = cur
            continue
        m = re.match(r'\s+(C\d\d) rc=(\d+) (\d+) viol \|\s*(.*)', line)
        if m and cur:
            cur["checks"][m.group(1)] = dict(rc=int(m.group(2)), violations=int(m.group(3)), first=m.group(4)[:220])
for (prop, mm), c in sorted(res.items()):
    dst = "/verif/seeded/%s-%s" % (prop, mm)
    os.makedirs(dst, exist_ok=True)
    for f in ("patch.diff", "demo_test.go", "notes.md"):
        if os.path.exists(os.path.join(c["dir"], f)):
            shutil.copy(os.path.join(c["dir"], f), os.path.join(dst, f))
    notes = open(os.path.join(dst, "notes.md")).read() if os.path.exists(os.path.join(dst, "notes.md")) else ""
    demo_note = {"pass": "pass", "PASS": "pass (the demonstration needs -race / -run <its test> alone: confirmed by hand, see DESIGN 11.5)", "fail": "fail", "FAIL": "FAIL"}
    meta = {
        "breaks_property": prop,
        "origin": "independent sub-agent given only the property text and a scratch worktree (%s)" % os.environ.get("ROUND_NOTE", "round 3: cooperating edits / rare conjunctions"),
        "needs_to_manifest": notes[:1800],
        "confirmed": {"applies_to": "/repo HEAD at the time (git apply --check)", "repo_tests_with_change": c["tests"], "demo_without_change": c["clean"],
                      "demo_with_change": demo_note.get(c["mut"], c["mut"]),
                      "how": "tools/evalmut.sh in a scratch worktree of /repo (never /repo itself); checks run with VERIF_REPO=<worktree>"},
        "files_changed": c["files"],
        "checks_run": c["checks"],
        "caught_by": sorted(k for k, v in c["checks"].items() if v["rc"] == 1),
    }
    json.dump(meta, open(os.path.join(dst, "meta.json"), "w"), indent=1)
    print(prop, mm, meta["caught_by"])
