//go:build !vhooks

package main

const hooksPresent = false
