package main

// C12 corpus: well-formed programs broken in one or two places (types, names,
// arity, variable texts, assets), still parsing without errors.

import (
	"fmt"
	"math/rand"
)

var exprKinds = map[string]bool{"var": true, "acct": true, "asset": true, "str": true, "num": true, "portion": true, "mon": true, "infix": true}

func collectExprs(x any, out *[]J) {
	switch v := x.(type) {
	case J:
		if k, _ := v["k"].(string); exprKinds[k] {
			if _, isNode := v["e"]; !isNode { // source / destination leaves are {k: acct, e: ...}
				*out = append(*out, v)
			}
		}
		for _, key := range sortedKeys(v) {
			collectExprs(v[key], out)
		}
	case []any:
		for _, y := range v {
			collectExprs(y, out)
		}
	}
}

func overwrite(dst J, src J) {
	for k := range dst {
		delete(dst, k)
	}
	for k, v := range src {
		dst[k] = v
	}
}

func randomLiteral(r *rand.Rand) J {
	switch r.Intn(7) {
	case 0:
		return eAcct(pick(r, []string{"a", "b", "x"}))
	case 1:
		return eAsset(pick(r, []string{"USD", "EUR/2"}))
	case 2:
		return eStr("s")
	case 3:
		return eNum(pick(r, []int{-3, 0, 5, 7}))
	case 4:
		return ePortion(1, 2)
	case 5:
		return eMon(eAsset(pick(r, []string{"USD", "EUR/2"})), eNum(pick(r, []int{-2, 0, 4})))
	}
	return eVar("zz") // undeclared
}

var badTexts = map[string][][2]string{
	"monetary": {{"USD", "InvalidMonetaryLiteral"}, {"USD 1 2", "InvalidMonetaryLiteral"}, {"USD x1", "InvalidNumberLiteral"}, {"", "InvalidMonetaryLiteral"}, {"USD 1.5", "InvalidNumberLiteral"}},
	"number":   {{"12a", "InvalidNumberLiteral"}, {"", "InvalidNumberLiteral"}, {"1.5", "InvalidNumberLiteral"}, {"0x10", "InvalidNumberLiteral"}},
	"portion":  {{"abc", "BadPortionParsingErr"}, {"3/2", "BadPortionParsingErr"}, {"150%", "BadPortionParsingErr"}, {"1/0", "BadPortionParsingErr"}, {"", "BadPortionParsingErr"}, {"-1/2", "BadPortionParsingErr"}},
}

func genIllCase(r *rand.Rand, id int) *Case {
	cfg := corpusCfg("mixed")
	cfg.name = "illtyped"
	cfg.unspecified = false
	cfg.negNums = r.Intn(4) == 0
	cfg.mismatchRate = 0
	if r.Intn(6) == 0 {
		cfg.mismatchRate = 8
	}
	cfg.maxStmts = 3
	c := genCase(r, cfg, id)
	c.Corpus = "illtyped"
	nmut := r.Intn(3)
	for m := 0; m < nmut; m++ {
		switch r.Intn(10) {
		case 9: // an infix whose RIGHT operand has another type than the left one
			var es []J
			collectExprs(c.Stmts, &es)
			var cands []J
			for _, e := range es {
				if e["k"] == "num" || e["k"] == "mon" || e["k"] == "var" {
					cands = append(cands, e)
				}
			}
			if len(cands) > 0 {
				e := pick(r, cands)
				left := J{}
				for k, v := range e {
					left[k] = v
				}
				overwrite(e, eInfix(pick(r, []string{"+", "-"}), left, pick(r, []J{eStr("1"), eAcct("fees"), eAsset("USD"), ePortion(1, 2)})))
			}
		case 0, 1, 2: // an expression of another type / an undeclared variable
			var es []J
			collectExprs(c.Stmts, &es)
			for _, d := range c.Decls {
				collectExprs(d.(J)["origin"], &es)
			}
			if len(es) > 0 {
				overwrite(pick(r, es), randomLiteral(r))
			}
		case 3: // wrong arity / unknown function in a call statement
			switch r.Intn(5) {
			case 4: // a portion literal with a zero denominator
				var es []J
				collectExprs(c.Stmts, &es)
				done := false
				for _, e := range es {
					if e["k"] == "portion" && r.Intn(2) == 0 {
						overwrite(e, J{"k": "portion", "n": 1, "d": 0})
						done = true
						break
					}
				}
				if !done {
					c.Stmts = append(c.Stmts, J{"k": "call", "name": "set_tx_meta", "args": jl(eStr("k"), J{"k": "portion", "n": 1, "d": 0})})
				}
			case 0:
				c.Stmts = append(c.Stmts, J{"k": "call", "name": "set_tx_meta", "args": jl(eStr("k"))})
			case 1:
				c.Stmts = append(c.Stmts, J{"k": "call", "name": "set_account_meta", "args": jl(eAcct("a"), eStr("k"), eNum(1), eNum(2))})
			case 2:
				if r.Intn(2) == 0 {
					c.Stmts = append(c.Stmts, J{"k": "call", "name": "frobnicate", "args": jl(eNum(1))})
				} else {
					// a function that only exists as the origin of a variable, used as a statement (with fitting arguments)
					switch r.Intn(3) {
					case 0:
						c.Stmts = append(c.Stmts, J{"k": "call", "name": "balance", "args": jl(eAcct("a"), eAsset("USD"))})
					case 1:
						c.Stmts = append(c.Stmts, J{"k": "call", "name": "meta", "args": jl(eAcct("m1"), eStr("k0"))})
					default:
						c.Stmts = append(c.Stmts, J{"k": "call", "name": "overdraft", "args": jl(eAcct("a"), eAsset("USD"))})
						c.FlagOvd = r.Intn(2) == 0
					}
				}
			default:
				c.Stmts = append(c.Stmts, J{"k": "call", "name": "set_tx_meta", "args": jl()})
			}
		case 4: // origin: unknown function, wrong arity, overdraft() without the flag
			name := fmt.Sprintf("w%c", 'a'+m)
			var o J
			switch r.Intn(4) {
			case 0:
				o = J{"k": "call", "name": "frob", "args": jl(eAcct("a"))}
			case 1:
				o = J{"k": "call", "name": "balance", "args": jl(eAcct("a"))}
			case 2:
				o = J{"k": "call", "name": "meta", "args": jl(eAcct("m1"), eStr("k"), eStr("k"))}
			default:
				o = J{"k": "call", "name": "overdraft", "args": jl(eAcct("a"), eAsset("USD"))}
				c.FlagOvd = r.Intn(2) == 0
			}
			c.Decls = append(c.Decls, J{"type": "monetary", "name": name, "origin": o})
			c.VarVals[name] = J{"t": "missing"}
		case 5: // unknown type name
			name := fmt.Sprintf("u%c", 'a'+m)
			if r.Intn(3) == 0 {
				// ... on a variable whose text comes from the metadata (the lookup itself succeeds)
				if c.Meta["m9"] == nil {
					c.Meta["m9"] = map[string]string{}
				}
				c.Meta["m9"]["kt"] = "x"
				c.Decls = append(c.Decls, J{"type": pick(r, []string{"thing", "acount", "int"}), "name": name, "origin": J{"k": "call", "name": "meta", "args": jl(eAcct("m9"), eStr("kt"))}})
				c.VarVals[name] = J{"t": "str", "v": "x"}
				break
			}
			c.Decls = append(c.Decls, J{"type": "thing", "name": name, "origin": J{"k": "none"}})
			if r.Intn(2) == 0 {
				c.RawVars[name] = "x"
				c.VarVals[name] = J{"t": "str", "v": "x"}
			} else {
				c.VarVals[name] = J{"t": "missing"}
			}
		case 6: // a declared variable is not supplied
			for _, d := range c.Decls {
				dj := d.(J)
				n := dj["name"].(string)
				if dj["origin"].(J)["k"] == "none" {
					if _, ok := c.RawVars[n]; ok && r.Intn(2) == 0 {
						delete(c.RawVars, n)
						c.VarVals[n] = J{"t": "missing"}
						break
					}
				}
			}
		case 7: // an unreadable variable text
			for _, d := range c.Decls {
				dj := d.(J)
				n := dj["name"].(string)
				bt, ok := badTexts[dj["type"].(string)]
				if ok && dj["origin"].(J)["k"] == "none" && r.Intn(2) == 0 {
					if _, has := c.RawVars[n]; has {
						b := pick(r, bt)
						c.RawVars[n] = b[0]
						c.VarVals[n] = J{"t": "err", "e": b[1]}
						break
					}
				}
			}
		default: // a variable declared with another type than the one it is used with
			if len(c.Decls) > 0 {
				dj := pick(r, c.Decls).(J)
				if dj["origin"].(J)["k"] == "none" {
					n := dj["name"].(string)
					nt := pick(r, []string{"account", "asset", "number", "string"})
					if _, has := c.RawVars[n]; has && nt != dj["type"] {
						dj["type"] = nt
						switch nt {
						case "account":
							c.RawVars[n], c.VarVals[n] = "a", J{"t": "acct", "v": "a"}
						case "asset":
							c.RawVars[n], c.VarVals[n] = "USD", J{"t": "asset", "v": "USD"}
						case "number":
							c.RawVars[n], c.VarVals[n] = "7", J{"t": "num", "v": 7}
						case "string":
							c.RawVars[n], c.VarVals[n] = "k", J{"t": "str", "v": "k"}
						}
					}
				}
			}
		}
	}
	fixMetaVals(c)
	c.Text = printProgram(c.Decls, c.Stmts)
	return c
}

// after mutations: a meta() origin whose (literal) arguments no longer name an entry of the store has no value
func fixMetaVals(c *Case) {
	for _, d := range c.Decls {
		dj := d.(J)
		o := dj["origin"].(J)
		if o["k"] != "call" || o["name"] != "meta" {
			continue
		}
		args := asList(o["args"])
		if len(args) != 2 {
			continue
		}
		a, k := args[0].(J), args[1].(J)
		if a["k"] != "acct" || k["k"] != "str" {
			continue
		}
		if _, ok := c.Meta[a["v"].(string)][k["v"].(string)]; !ok {
			c.VarVals[dj["name"].(string)] = J{"t": "missing"}
		}
	}
}
