package main

// Scripted stores (C10 / C12): the reply shape of every call and the call
// that fails are dictated from outside (TLC-generated behaviours or a seeded
// choice); every call is logged.

import (
	"context"
	"encoding/json"
	"fmt"
	"math/big"
	"math/rand"
	"sort"
	"strings"

	"github.com/formancehq/numscript"
	"github.com/formancehq/numscript/internal/interpreter"
)

type storeCall struct {
	Kind  string
	Pairs [][2]string
}

type scriptStore struct {
	bal      map[string]map[string]int64
	meta     map[string]map[string]string
	modes    []string
	fault    int // 1-based index of the failing call, 0 = none
	faultMsg string
	ncalls   int
	log      []storeCall
	faulted  string // kind of the call that failed
	static   *interpreter.StaticStore
}

func (s *scriptStore) mode() string {
	if s.ncalls-1 < len(s.modes) {
		return s.modes[s.ncalls-1]
	}
	if len(s.modes) > 0 {
		return s.modes[len(s.modes)-1]
	}
	return "exact"
}

func (s *scriptStore) GetBalances(ctx context.Context, q interpreter.BalanceQuery) (interpreter.Balances, error) {
	s.ncalls++
	c := storeCall{Kind: "bal"}
	for a, assets := range q {
		for _, as := range assets {
			c.Pairs = append(c.Pairs, [2]string{a, as})
		}
	}
	s.log = append(s.log, c)
	if s.ncalls == s.fault {
		s.faulted = "bal"
		return nil, fmt.Errorf("%s", s.faultMsg)
	}
	switch s.mode() {
	case "sparse":
		out := interpreter.Balances{}
		for a, assets := range q {
			for _, as := range assets {
				if v, ok := s.bal[a][as]; ok && v != 0 {
					if out[a] == nil {
						out[a] = interpreter.AccountBalance{}
					}
					out[a][as] = big.NewInt(v)
				}
			}
		}
		return out, nil
	case "superset":
		return mkBalances(s.bal), nil
	case "static":
		if s.static == nil {
			s.static = &interpreter.StaticStore{Balances: mkBalances(s.bal), Meta: mkMeta(s.meta)}
		}
		return s.static.GetBalances(ctx, q)
	default: // exact
		out := interpreter.Balances{}
		for a, assets := range q {
			out[a] = interpreter.AccountBalance{}
			for _, as := range assets {
				out[a][as] = big.NewInt(s.bal[a][as])
			}
		}
		return out, nil
	}
}

func (s *scriptStore) GetAccountsMetadata(ctx context.Context, q interpreter.MetadataQuery) (interpreter.AccountsMetadata, error) {
	s.ncalls++
	c := storeCall{Kind: "meta"}
	for a, keys := range q {
		for _, k := range keys {
			c.Pairs = append(c.Pairs, [2]string{a, k})
		}
	}
	s.log = append(s.log, c)
	if s.ncalls == s.fault {
		s.faulted = "meta"
		return nil, fmt.Errorf("%s", s.faultMsg)
	}
	switch s.mode() {
	case "superset", "sparse":
		return mkMeta(s.meta), nil
	case "static":
		if s.static == nil {
			s.static = &interpreter.StaticStore{Balances: mkBalances(s.bal), Meta: mkMeta(s.meta)}
		}
		return s.static.GetAccountsMetadata(ctx, q)
	default:
		out := interpreter.AccountsMetadata{}
		for a, keys := range q {
			for _, k := range keys {
				if v, ok := s.meta[a][k]; ok {
					if out[a] == nil {
						out[a] = interpreter.AccountMetadata{}
					}
					out[a][k] = v
				}
			}
		}
		return out, nil
	}
}

type storeRun struct {
	modes []string
	fault int
}

func runWithScript(p numscript.ParseResult, c *Case, sr storeRun, id int) J {
	st := &scriptStore{bal: c.Bal, meta: c.Meta, modes: sr.modes, fault: sr.fault, faultMsg: fmt.Sprintf("injected-fault-%d-%d", id, sr.fault)}
	o := runParsed(context.Background(), p, copyVars(c.RawVars), st, c.FlagOvd)
	j := o.toJSON()
	delete(j, "e")
	world := false
	queries := []any{}
	kinds := []any{}
	for _, cl := range st.log {
		kinds = append(kinds, cl.Kind)
		if cl.Kind == "bal" {
			for _, p := range cl.Pairs {
				if p[0] == "world" {
					world = true
				}
				queries = append(queries, []any{p[0], p[1]})
			}
		}
	}
	j["modes"] = append([]string{}, sr.modes...)
	if len(sr.modes) == 0 {
		j["modes"] = []string{}
	}
	j["fault"] = sr.fault
	j["faulted"] = st.faulted != ""
	j["failkind"] = st.faulted
	j["msgok"] = st.faulted == "" || strings.Contains(o.Msg, st.faultMsg)
	j["world"] = world
	j["ncalls"] = st.ncalls
	j["queries"] = queries
	j["kinds"] = kinds
	return j
}

// ---- cases from TLC behaviours (Machine.tla, Emit) --------------------------

type genLine struct {
	Vars   []any                       `json:"vars"`
	Stmts  []any                       `json:"stmts"`
	Bal    map[string]map[string]int64 `json:"bal"`
	Modes  []string                    `json:"modes"`
	Kinds  []string                    `json:"kinds"`
	Fault  int                         `json:"fault"`
	Status string                      `json:"status"`
}

func caseFromGen(g genLine, id int) *Case {
	c := &Case{ID: id, Corpus: "machine", VarVals: map[string]J{}, RawVars: map[string]string{}, Bal: g.Bal,
		Meta: map[string]map[string]string{}, FlagOvd: true}
	normNums(g.Vars)
	normNums(g.Stmts)
	for _, v := range g.Vars {
		d := v.(J)
		name := d["name"].(string)
		val, _ := d["val"].(J)
		o := d["origin"].(J)
		if o["k"] == "call" && o["name"] == "meta" {
			args := asList(o["args"])
			acc := args[0].(J)["v"].(string)
			key := args[1].(J)["v"].(string)
			if c.Meta[acc] == nil {
				c.Meta[acc] = map[string]string{}
			}
			c.Meta[acc][key] = valText(val)
		} else if o["k"] == "none" {
			c.RawVars[name] = valText(val)
		}
		c.VarVals[name] = val
	}
	c.Decls = g.Vars
	c.Stmts = g.Stmts
	c.Text = printProgram(g.Vars, g.Stmts)
	return c
}

func groupKey(c *Case) string {
	b, _ := json.Marshal(J{"t": c.Text, "b": c.Bal, "m": c.Meta, "v": c.RawVars})
	return string(b)
}

// vh store-gen <gen.ndjson> <out.ndjson>: replay TLC behaviours of Machine.tla into the real interpreter
func cmdStoreGen(args []string) {
	if len(args) != 2 {
		die(2, "usage: vh store-gen <gen> <out>")
	}
	type grp struct {
		c    *Case
		runs []storeRun
		seen map[string]bool
	}
	groups := map[string]*grp{}
	var order []string
	n := 0
	readLines(args[0], func(b []byte) {
		var g genLine
		if err := json.Unmarshal(b, &g); err != nil {
			die(2, "bad gen line: %v", err)
		}
		c := caseFromGen(g, n)
		n++
		k := groupKey(c)
		if groups[k] == nil {
			groups[k] = &grp{c: c, seen: map[string]bool{}}
			order = append(order, k)
		}
		rk := fmt.Sprint(g.Modes, g.Fault)
		if !groups[k].seen[rk] {
			groups[k].seen[rk] = true
			modes := []string{}
			for _, m := range g.Modes {
				if m == "fail" {
					m = "exact"
				}
				modes = append(modes, m)
			}
			groups[k].runs = append(groups[k].runs, storeRun{modes: modes, fault: g.Fault})
		}
	})
	writeGroups(args[1], order, func(k string) (*Case, []storeRun) { return groups[k].c, groups[k].runs }, n)
}

func writeGroups(out string, order []string, get func(string) (*Case, []storeRun), behaviours int) {
	writeGroupsOpt(out, order, get, behaviours, true)
}

func writeGroupsOpt(out string, order []string, get func(string) (*Case, []storeRun), behaviours int, addPure bool) {
	lw := newLineWriter(out)
	nruns, nfault, nontriv, dropped := 0, 0, 0, 0
	var samples []any
	for gi, k := range order {
		c, runs := get(k)
		var p numscript.ParseResult
		ok := true
		func() {
			defer func() {
				if recover() != nil {
					ok = false
				}
			}()
			p = numscript.Parse(c.Text)
		}()
		if !ok || len(p.GetParsingErrors()) > 0 {
			dropped++
			continue
		}
		// always add the pure behaviours, incl. the repo's static store
		if addPure {
			runs = append(runs, storeRun{modes: []string{"exact"}}, storeRun{modes: []string{"sparse"}}, storeRun{modes: []string{"superset"}}, storeRun{modes: []string{"static"}})
		}
		rs := []any{}
		maxCalls := 0
		for _, sr := range runs {
			r := runWithScript(p, c, sr, gi)
			rs = append(rs, r)
			nruns++
			if r["faulted"] == true {
				nfault++
			}
			if r["ncalls"].(int) > maxCalls {
				maxCalls = r["ncalls"].(int)
			}
		}
		if maxCalls >= 2 {
			nontriv++
			if len(samples) < 3 {
				samples = append(samples, J{"script": c.Text, "balances": c.Bal, "metadata": c.Meta, "runs": len(runs), "first_run": rs[0]})
			}
		}
		lw.write(J{"e": "group", "id": gi, "text": c.Text, "bal": c.Bal, "meta": c.Meta, "rawvars": c.RawVars, "flagovd": c.FlagOvd, "runs": rs})
	}
	lw.close()
	printJSON(J{"behaviours": behaviours, "groups": len(order) - dropped, "runs": nruns, "faulted_runs": nfault, "nontrivial": nontriv, "dropped": dropped, "samples": samples})
}

// ---- random corpus biased to early requests ----------------------------------

func genStoreCase(r *rand.Rand, id int) *Case {
	c := &Case{ID: id, Corpus: "store", VarVals: map[string]J{}, RawVars: map[string]string{},
		Bal: map[string]map[string]int64{}, Meta: map[string]map[string]string{}, FlagOvd: r.Intn(2) == 0}
	accts := []string{"a", "b", "c", "d"}
	if r.Intn(4) == 0 {
		// an ordinary account whose name only differs from "world" by its case (names are case-sensitive)
		accts[3] = pick(r, []string{"World", "WORLD", "wOrld"})
	}
	assets := []string{"USD", "EUR/2"}
	for _, a := range accts {
		for _, as := range assets {
			if r.Intn(4) != 0 {
				if c.Bal[a] == nil {
					c.Bal[a] = map[string]int64{}
				}
				c.Bal[a][as] = int64(pick(r, []int{0, 0, 3, 7, 10, 25, 60, -4}))
			}
		}
	}
	S := pick(r, assets)
	other := assets[0]
	if other == S {
		other = assets[1]
	}
	nl := 1 + r.Intn(3)
	perm := r.Perm(len(accts))
	var leaves []string
	for i := 0; i < nl; i++ {
		leaves = append(leaves, accts[perm[i]])
	}
	acctExpr := map[string]J{}
	nv := 0
	newVar := func(t string, origin J, val J) string {
		name := fmt.Sprintf("v%c", 'a'+nv)
		nv++
		c.Decls = append(c.Decls, J{"type": t, "name": name, "origin": origin})
		c.VarVals[name] = val
		return name
	}
	// account variables fed by metadata
	for _, a := range leaves {
		acctExpr[a] = eAcct(a)
		if r.Intn(4) == 0 {
			key := "k" + a
			if c.Meta["m"] == nil {
				c.Meta["m"] = map[string]string{}
			}
			c.Meta["m"][key] = a
			c.Meta["m"]["unrelated"] = "zzz"
			n := newVar("account", J{"k": "call", "name": "meta", "args": jl(eAcct("m"), eStr(key))}, J{"t": "acct", "v": a})
			acctExpr[a] = eVar(n)
		}
	}
	if r.Intn(12) == 0 {
		// a lookup that fails: the account has no metadata at all / lacks the key
		acc := pick(r, []string{"nometa", "m"})
		newVar("string", J{"k": "call", "name": "meta", "args": jl(eAcct(acc), eStr("absent"))}, J{"t": "missing"})
		if acc == "m" && c.Meta["m"] == nil {
			c.Meta["m"] = map[string]string{"other": "x"}
		}
	}
	// origins that pre-fetch a subset of the leaves (the skeleton that exposes a forgotten cache entry)
	var balVars []string
	for _, a := range leaves {
		switch r.Intn(5) {
		case 0, 1:
			n := newVar("monetary", J{"k": "call", "name": "balance", "args": jl(acctExpr[a], eAsset(S))}, J{"t": "none"})
			balVars = append(balVars, n)
		case 2:
			newVar("monetary", J{"k": "call", "name": "balance", "args": jl(acctExpr[a], eAsset(other))}, J{"t": "none"})
		case 3:
			if c.FlagOvd {
				newVar("monetary", J{"k": "call", "name": "overdraft", "args": jl(acctExpr[a], eAsset(S))}, J{"t": "none"})
			}
		}
	}
	r.Shuffle(len(c.Decls), func(i, j int) {
		// keep meta-origin account variables before their users: only shuffle among balance-like origins
		oi := c.Decls[i].(J)["origin"].(J)
		oj := c.Decls[j].(J)["origin"].(J)
		if oi["name"] != "meta" && oj["name"] != "meta" {
			c.Decls[i], c.Decls[j] = c.Decls[j], c.Decls[i]
		}
	})
	// two origins on the same account under both assets
	if r.Intn(6) == 0 {
		a := leaves[0]
		newVar("monetary", J{"k": "call", "name": "balance", "args": jl(acctExpr[a], eAsset(other))}, J{"t": "none"})
		n := newVar("monetary", J{"k": "call", "name": "balance", "args": jl(acctExpr[a], eAsset(S))}, J{"t": "none"})
		balVars = append(balVars, n)
	}
	mkLeaf := func(a string) J {
		switch r.Intn(6) {
		case 0:
			return J{"k": "ovd", "e": acctExpr[a], "b": eMon(eAsset(S), eNum(pick(r, []int{0, 2, 5})))}
		case 1:
			return J{"k": "cap", "c": eMon(eAsset(S), eNum(pick(r, []int{1, 4, 9, 50}))), "s": J{"k": "acct", "e": acctExpr[a]}}
		}
		return J{"k": "acct", "e": acctExpr[a]}
	}
	srcs := []any{}
	for _, a := range leaves {
		srcs = append(srcs, mkLeaf(a))
	}
	if r.Intn(8) == 0 && len(srcs) >= 2 {
		// a capped world in the middle: the sources after it are still needed
		mid := J{"k": "cap", "c": eMon(eAsset(S), eNum(pick(r, []int{1, 3, 10}))), "s": J{"k": "acct", "e": eAcct("world")}}
		srcs = append(append(append([]any{}, srcs[:1]...), mid), srcs[1:]...)
	}
	switch r.Intn(8) {
	case 0:
		srcs = append(srcs, J{"k": "acct", "e": eAcct("world")})
	case 1:
		srcs = append(srcs, J{"k": "ovd", "e": eAcct("world"), "b": eMon(eAsset(S), eNum(5))})
	}
	if r.Intn(3) == 0 {
		// the store happens to hold an entry for @world (a ledger does): it is never asked for and must not matter
		c.Bal["world"] = map[string]int64{S: int64(pick(r, []int{40, -40, 7}))}
	}
	if r.Intn(6) == 0 {
		n := newVar("monetary", J{"k": "call", "name": "balance", "args": jl(eAcct("world"), eAsset(S))}, J{"t": "none"})
		if r.Intn(2) == 0 {
			balVars = append(balVars, n)
		}
	}
	var src J = J{"k": "seq", "s": srcs}
	if r.Intn(8) == 0 && len(leaves) >= 2 {
		its := []any{J{"p": pick(r, []J{ePortion(0, 1), J{"k": "portion", "n": 0, "d": 100, "txt": "0%"}, ePortion(1, 3)}), "s": J{"k": "acct", "e": acctExpr[leaves[0]]}}}
		for i, a := range leaves[1:] {
			p := ePortion(1, 2)
			if i == len(leaves[1:])-1 {
				p = eRemaining()
			}
			its = append(its, J{"p": p, "s": J{"k": "acct", "e": acctExpr[a]}})
		}
		src = J{"k": "allot", "it": its}
		srcs = srcs[:0]
	}
	if len(srcs) == 1 && r.Intn(2) == 0 && src["k"] == "seq" {
		src = srcs[0].(J)
	}
	all := r.Intn(4) == 0
	var sent J
	if all {
		sent = eAsset(S)
		// no world / allotment under send-all
		plain := []any{}
		for _, a := range leaves {
			plain = append(plain, J{"k": "acct", "e": acctExpr[a]})
		}
		src = J{"k": "seq", "s": plain}
	} else if len(balVars) > 0 && r.Intn(2) == 0 {
		sent = eVar(pick(r, balVars))
	} else {
		sent = eMon(eAsset(S), eNum(pick(r, []int{1, 5, 12, 30, 70})))
	}
	if r.Intn(4) == 0 {
		c.Stmts = append(c.Stmts, J{"k": "save", "all": r.Intn(3) == 0, "sent": func() J {
			if r.Intn(3) == 0 {
				return eAsset(S)
			}
			return eMon(eAsset(S), eNum(pick(r, []int{1, 4, 8})))
		}(), "e": acctExpr[pick(r, leaves)]})
		st := c.Stmts[0].(J)
		if st["sent"].(J)["k"] == "asset" {
			st["all"] = true
		} else {
			st["all"] = false
		}
	}
	if r.Intn(10) == 0 {
		c.Stmts = append(c.Stmts, J{"k": "save", "all": false, "sent": eMon(eAsset(S), eNum(3)), "e": eAcct("world")})
	}
	c.Stmts = append(c.Stmts, J{"k": "send", "all": all, "sent": sent, "src": src, "dst": J{"k": "acct", "e": eAcct(pick(r, []string{"x", "a", "b"}))}})
	if r.Intn(3) == 0 {
		// the same accounts under the other asset
		c.Stmts = append(c.Stmts, J{"k": "send", "all": false, "sent": eMon(eAsset(other), eNum(pick(r, []int{1, 5, 12}))),
			"src": J{"k": "seq", "s": []any{J{"k": "acct", "e": acctExpr[leaves[0]]}, J{"k": "acct", "e": eAcct(pick(r, accts))}}},
			"dst": J{"k": "acct", "e": eAcct("y")}})
	}
	if r.Intn(5) == 0 {
		c.Stmts = append(c.Stmts, J{"k": "call", "name": "set_tx_meta", "args": jl(eStr("k"), eNum(1))})
	}
	if r.Intn(4) == 0 {
		// writing metadata of an account whose metadata the store also holds (and that a meta() origin may have read)
		if c.Meta["m"] == nil {
			c.Meta["m"] = map[string]string{"other": "x"}
		}
		c.Stmts = append(c.Stmts, J{"k": "call", "name": "set_account_meta", "args": jl(eAcct("m"), eStr(pick(r, []string{"written", "other", "ka"})), eNum(7))})
	}
	if r.Intn(3) == 0 {
		// interleaved statements over both assets and the same few accounts: whatever is requested late (or not at
		// all) shows as a difference between the store behaviours
		c.Stmts = nil
		n := 2 + r.Intn(3)
		for _, a := range leaves {
			// pairs the store holds no entry for at all
			if r.Intn(2) == 0 && c.Bal[a] != nil {
				delete(c.Bal[a], other)
			}
		}
		for i := 0; i < n; i++ {
			as := pick(r, []string{S, S, other})
			a := pick(r, leaves)
			if r.Intn(3) == 0 {
				if r.Intn(3) == 0 {
					c.Stmts = append(c.Stmts, J{"k": "save", "all": true, "sent": eAsset(as), "e": acctExpr[a]})
				} else {
					c.Stmts = append(c.Stmts, J{"k": "save", "all": false, "sent": eMon(eAsset(as), eNum(pick(r, []int{1, 4, 8}))), "e": acctExpr[a]})
				}
				continue
			}
			parts := []any{J{"k": "acct", "e": acctExpr[a]}}
			if r.Intn(2) == 0 {
				parts = append(parts, J{"k": "acct", "e": eAcct(pick(r, accts))})
			}
			var sq J = J{"k": "seq", "s": parts}
			if r.Intn(3) == 0 {
				sq = J{"k": "cap", "c": eMon(eAsset(as), eNum(pick(r, []int{3, 10, 25}))), "s": sq}
			}
			if r.Intn(4) == 0 {
				sq = J{"k": "seq", "s": []any{sq, J{"k": "acct", "e": eAcct("world")}}}
			}
			c.Stmts = append(c.Stmts, J{"k": "send", "all": false, "sent": eMon(eAsset(as), eNum(pick(r, []int{1, 5, 10, 30, 45, 60}))),
				"src": sq, "dst": J{"k": "acct", "e": eAcct(pick(r, []string{"x", "y", "a", "b"}))}})
		}
	}
	if c.Decls == nil {
		c.Decls = []any{}
	}
	c.Text = printProgram(c.Decls, c.Stmts)
	return c
}

// vh store-rand <seed> <n> <out.ndjson> <modeseqs.ndjson>: random biased programs x TLC-enumerated reply-shape sequences
func cmdStoreRand(args []string) {
	if len(args) != 4 {
		die(2, "usage: vh store-rand <seed> <n> <out> <modeseqs>")
	}
	seed, n := argInt(args[0]), argInt(args[1])
	var seqs [][]string
	readLines(args[3], func(b []byte) {
		var s []string
		if err := json.Unmarshal(b, &s); err != nil {
			die(2, "bad mode sequence: %v", err)
		}
		seqs = append(seqs, s)
	})
	sort.Slice(seqs, func(i, j int) bool { return fmt.Sprint(seqs[i]) < fmt.Sprint(seqs[j]) })
	r := rand.New(rand.NewSource(int64(seed)*104729 + 17))
	cases := map[string]*Case{}
	runs := map[string][]storeRun{}
	var order []string
	for i := 0; i < n; i++ {
		c := genStoreCase(r, i)
		k := fmt.Sprint(i)
		cases[k] = c
		order = append(order, k)
		var rs []storeRun
		// every fault position up to 4 calls, and a sample of the reply-shape sequences
		for f := 1; f <= 4; f++ {
			rs = append(rs, storeRun{modes: []string{pick(r, []string{"exact", "sparse", "superset"})}, fault: f})
		}
		for j := 0; j < 6 && len(seqs) > 0; j++ {
			rs = append(rs, storeRun{modes: seqs[r.Intn(len(seqs))]})
		}
		runs[k] = rs
	}
	// wide requests: one statement that needs the balances of N accounts, N around the sizes at which a request might be cut
	// into pages or batches (powers of two and their neighbours); every account matters for the result
	for j, N := range []int{15, 16, 17, 31, 32, 33, 40, 63, 64, 65, 70, 100, 128, 130} {
		c := wideStoreCase(r, n+j, N, j%3 == 2)
		k := fmt.Sprint(n + j)
		cases[k] = c
		order = append(order, k)
		rs := []storeRun{{modes: []string{"exact"}}, {modes: []string{"sparse"}}, {modes: []string{"superset"}}, {modes: []string{"exact"}, fault: 1}}
		runs[k] = rs
	}
	writeGroups(args[2], order, func(k string) (*Case, []storeRun) { return cases[k], runs[k] }, 0)
}

func wideStoreCase(r *rand.Rand, id int, N int, sendAll bool) *Case {
	c := &Case{ID: id, Corpus: "store-wide", VarVals: map[string]J{}, RawVars: map[string]string{}, Decls: []any{},
		Bal: map[string]map[string]int64{}, Meta: map[string]map[string]string{}}
	var leaves []any
	total := 0
	for i := 0; i < N; i++ {
		name := fmt.Sprintf("users:%03d", r.Intn(3)*1000+i) // (not in sorted order of declaration)
		b := 1 + r.Intn(3)
		c.Bal[name] = map[string]int64{"USD": int64(b)}
		total += b
		leaves = append(leaves, J{"k": "acct", "e": eAcct(name)})
	}
	r.Shuffle(len(leaves), func(i, j int) { leaves[i], leaves[j] = leaves[j], leaves[i] })
	var sent J = eMon(eAsset("USD"), eNum(total))
	if sendAll {
		sent = eAsset("USD")
	}
	c.Stmts = []any{J{"k": "send", "all": sendAll, "sent": sent, "src": J{"k": "seq", "s": leaves}, "dst": J{"k": "acct", "e": eAcct("d")}}}
	c.Text = printProgram(c.Decls, c.Stmts)
	return c
}

// vh store-replay <replay.json> <out.ndjson>: re-execute one recorded group
func cmdStoreReplay(args []string) {
	if len(args) != 2 {
		die(2, "usage: vh store-replay <replay> <out>")
	}
	b, err := readFile(args[0])
	if err != nil {
		die(2, "%v", err)
	}
	var rp struct {
		Case struct {
			Text    string                       `json:"text"`
			Bal     map[string]map[string]int64  `json:"bal"`
			Meta    map[string]map[string]string `json:"meta"`
			RawVars map[string]string            `json:"rawvars"`
			FlagOvd bool                         `json:"flagovd"`
			Runs    []struct {
				Modes []string `json:"modes"`
				Fault int      `json:"fault"`
			} `json:"runs"`
		} `json:"case"`
	}
	if err := json.Unmarshal(b, &rp); err != nil {
		die(2, "%v", err)
	}
	c := &Case{Text: rp.Case.Text, Bal: rp.Case.Bal, Meta: rp.Case.Meta, RawVars: rp.Case.RawVars, FlagOvd: rp.Case.FlagOvd}
	var runs []storeRun
	for _, r := range rp.Case.Runs {
		runs = append(runs, storeRun{modes: r.Modes, fault: r.Fault})
	}
	writeGroupsOpt(args[1], []string{"0"}, func(string) (*Case, []storeRun) { return c, runs }, 0, false)
}
