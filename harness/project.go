package main

// Projection of the real parser's tree (internal/parser) onto the abstract
// syntax of the specification.  The interpreter is always judged against the
// tree it actually ran, so a printer bug in the generators can only cost
// coverage, never cause an alarm.

import (
	"strconv"
	"fmt"
	"math"

	"github.com/formancehq/numscript/internal/parser"
)

type projErr struct{ msg string }

func (e projErr) Error() string { return e.msg }

func pfail(format string, a ...any) { panic(projErr{fmt.Sprintf(format, a...)}) }

func projExpr(e parser.ValueExpr) J {
	switch e := e.(type) {
	case *parser.Variable:
		if e == nil {
			pfail("nil variable")
		}
		return eVar(e.Name)
	case *parser.AssetLiteral:
		return eAsset(e.Asset)
	case *parser.AccountLiteral:
		return eAcct(e.Name)
	case *parser.StringLiteral:
		return eStr(e.String)
	case *parser.NumberLiteral:
		if e.Number > math.MaxInt32 || e.Number < -math.MaxInt32 {
			// beyond the integers of the specification: carried as its decimal text
			return J{"k": "num", "big": true, "s": strconv.Itoa(e.Number)}
		}
		return eNum(e.Number)
	case *parser.RatioLiteral:
		if e == nil || e.Numerator == nil || e.Denominator == nil {
			pfail("nil ratio")
		}
		if !e.Numerator.IsInt64() || !e.Denominator.IsInt64() || e.Numerator.Int64() > math.MaxInt32 || e.Denominator.Int64() > math.MaxInt32 {
			// beyond the integers of the specification: carried as the two digit strings (unreduced)
			return J{"k": "portion", "big": true, "ns": e.Numerator.String(), "ds": e.Denominator.String()}
		}
		return ePortion(int(e.Numerator.Int64()), int(e.Denominator.Int64()))
	case *parser.MonetaryLiteral:
		if e == nil {
			pfail("nil monetary")
		}
		return eMon(projExpr(e.Asset), projExpr(e.Amount))
	case *parser.BinaryInfix:
		return eInfix(string(e.Operator), projExpr(e.Left), projExpr(e.Right))
	}
	pfail("unknown/nil expr %T", e)
	return nil
}

func projAllotVal(a parser.AllotmentValue) J {
	switch a := a.(type) {
	case *parser.RemainingAllotment:
		return eRemaining()
	case *parser.RatioLiteral:
		return projExpr(a)
	case *parser.Variable:
		return projExpr(a)
	}
	pfail("unknown/nil allotment value %T", a)
	return nil
}

func projSource(s parser.Source) J {
	switch s := s.(type) {
	case *parser.SourceAccount:
		return J{"k": "acct", "e": projExpr(s.ValueExpr)}
	case *parser.SourceOverdraft:
		if s.Bounded == nil {
			return J{"k": "ovdu", "e": projExpr(s.Address)}
		}
		return J{"k": "ovd", "e": projExpr(s.Address), "b": projExpr(*s.Bounded)}
	case *parser.SourceInorder:
		xs := []any{}
		for _, x := range s.Sources {
			xs = append(xs, projSource(x))
		}
		return J{"k": "seq", "s": xs}
	case *parser.SourceCapped:
		return J{"k": "cap", "c": projExpr(s.Cap), "s": projSource(s.From)}
	case *parser.SourceAllotment:
		xs := []any{}
		for _, it := range s.Items {
			xs = append(xs, J{"p": projAllotVal(it.Allotment), "s": projSource(it.From)})
		}
		return J{"k": "allot", "it": xs}
	}
	pfail("unknown/nil source %T", s)
	return nil
}

func projKod(k parser.KeptOrDestination) J {
	switch k := k.(type) {
	case *parser.DestinationKept:
		return J{"k": "kept"}
	case *parser.DestinationTo:
		return projDest(k.Destination)
	}
	pfail("unknown/nil kept-or-destination %T", k)
	return nil
}

func projDest(d parser.Destination) J {
	switch d := d.(type) {
	case *parser.DestinationAccount:
		return J{"k": "acct", "e": projExpr(d.ValueExpr)}
	case *parser.DestinationInorder:
		cl := []any{}
		for _, c := range d.Clauses {
			cl = append(cl, J{"c": projExpr(c.Cap), "to": projKod(c.To)})
		}
		return J{"k": "ord", "cl": cl, "rem": projKod(d.Remaining)}
	case *parser.DestinationAllotment:
		it := []any{}
		for _, i := range d.Items {
			it = append(it, J{"p": projAllotVal(i.Allotment), "to": projKod(i.To)})
		}
		return J{"k": "allot", "it": it}
	}
	pfail("unknown/nil destination %T", d)
	return nil
}

func projSent(s parser.SentValue) (bool, J) {
	switch s := s.(type) {
	case *parser.SentValueAll:
		return true, projExpr(s.Asset)
	case *parser.SentValueLiteral:
		return false, projExpr(s.Monetary)
	}
	pfail("unknown/nil sent value %T", s)
	return false, nil
}

func projArgs(args []parser.ValueExpr) []any {
	out := []any{}
	for _, a := range args {
		out = append(out, projExpr(a))
	}
	return out
}

func projStmt(s parser.Statement) J {
	switch s := s.(type) {
	case *parser.SendStatement:
		all, sent := projSent(s.SentValue)
		return J{"k": "send", "all": all, "sent": sent, "src": projSource(s.Source), "dst": projDest(s.Destination)}
	case *parser.SaveStatement:
		all, sent := projSent(s.SentValue)
		return J{"k": "save", "all": all, "sent": sent, "e": projExpr(s.Amount)}
	case *parser.FnCall:
		if s == nil || s.Caller == nil {
			pfail("nil call")
		}
		return J{"k": "call", "name": s.Caller.Name, "args": projArgs(s.Args)}
	}
	pfail("unknown/nil statement %T", s)
	return nil
}

// projProgram returns (vars, stmts) or an error when the tree has holes.
func projProgram(p parser.Program) (vars []any, stmts []any, err error) {
	defer func() {
		if r := recover(); r != nil {
			if pe, ok := r.(projErr); ok {
				err = pe
				return
			}
			panic(r)
		}
	}()
	vars = []any{}
	stmts = []any{}
	for _, d := range p.Vars {
		if d.Name == nil || d.Type == nil {
			pfail("declaration with holes")
		}
		o := J{"k": "none"}
		if d.Origin != nil {
			if d.Origin.Caller == nil {
				pfail("origin without a name")
			}
			o = J{"k": "call", "name": d.Origin.Caller.Name, "args": projArgs(d.Origin.Args)}
		}
		vars = append(vars, J{"type": d.Type.Name, "name": d.Name.Name, "origin": o})
	}
	for _, s := range p.Statements {
		stmts = append(stmts, projStmt(s))
	}
	return vars, stmts, nil
}
