package main

// vh lex-check <gen.ndjson> <out.ndjson>: the texts of LexFam.tla through the real (generated) lexer and the real parser.

import (
	"encoding/json"
	"fmt"
	"strings"

	"github.com/antlr4-go/antlr/v4"
	"github.com/formancehq/numscript/internal/parser"
	antlrParser "github.com/formancehq/numscript/internal/parser/antlr"
)

type lexGenLine struct {
	Text    string   `json:"text"`
	Toks    [][]any  `json:"toks"`
	Errs    []string `json:"errs"`
	Accepts bool     `json:"accepts"`
	Unspec  bool     `json:"unspec"`
	Variant *int     `json:"variant"`
}

type lexErrListener struct {
	antlr.DefaultErrorListener
	msgs []string
}

func (l *lexErrListener) SyntaxError(_ antlr.Recognizer, _ interface{}, _, _ int, msg string, _ antlr.RecognitionException) {
	l.msgs = append(l.msgs, msg)
}

// kinds as in Grammar!Kind
var lexKindOf = map[string]string{"VARIABLE_NAME": "VAR", "ACCOUNT": "ACCOUNT", "STRING": "STRING", "PERCENTAGE_PORTION_LITERAL": "PERCENT",
	"IDENTIFIER": "IDENT", "NUMBER": "NUMBER", "RATIO_PORTION_LITERAL": "RATIO", "ASSET": "ASSET"}

func lexObserve(text string) J {
	obs := J{"panic": "", "toks": []any{}, "errs": []any{}, "nerr": 0, "perrs": []any{}}
	func() {
		defer func() {
			if r := recover(); r != nil {
				obs["panic"] = "lex: " + oneLine(fmt.Sprint(r))
			}
		}()
		lx := antlrParser.NewNumscriptLexer(antlr.NewInputStream(text))
		ls := &lexErrListener{}
		lx.RemoveErrorListeners()
		lx.AddErrorListener(ls)
		toks := []any{}
		for _, t := range lx.GetAllTokens() {
			if t.GetChannel() != antlr.TokenDefaultChannel {
				continue
			}
			name := ""
			if tt := t.GetTokenType(); tt >= 0 && tt < len(lx.SymbolicNames) {
				name = lx.SymbolicNames[tt]
			}
			k, ok := lexKindOf[name]
			if !ok {
				k = t.GetText() // keywords and punctuation are their own kind
			}
			toks = append(toks, []any{k, t.GetText()})
		}
		obs["toks"] = toks
		errs := []any{}
		for _, m := range ls.msgs {
			errs = append(errs, strings.TrimSuffix(strings.TrimPrefix(m, "token recognition error at: '"), "'"))
		}
		obs["errs"] = errs
	}()
	func() {
		defer func() {
			if r := recover(); r != nil {
				obs["panic"] = "parse: " + oneLine(fmt.Sprint(r))
			}
		}()
		pr := parser.Parse(text)
		obs["nerr"] = len(pr.Errors)
		pe := []any{}
		for _, e := range pr.Errors {
			if strings.HasPrefix(e.Msg, "token recognition error at: '") {
				pe = append(pe, strings.TrimSuffix(strings.TrimPrefix(e.Msg, "token recognition error at: '"), "'"))
			}
		}
		obs["perrs"] = pe
	}()
	return obs
}

func cmdLexCheck(args []string) {
	if len(args) != 2 {
		die(2, "usage: vh lex-check <gen> <out>")
	}
	lw := newLineWriter(args[1])
	n, nerrs, nacc := 0, 0, 0
	var samples []any
	readLines(args[0], func(b []byte) {
		var g lexGenLine
		if err := json.Unmarshal(b, &g); err != nil {
			die(2, "bad gen line: %v", err)
		}
		// wider characters for the placeholder, same positions
		vn := n
		if g.Variant != nil {
			vn = *g.Variant
		}
		text := widen(g.Text, vn)
		toks := make([]any, len(g.Toks))
		for i, t := range g.Toks {
			toks[i] = []any{t[0], widen(fmt.Sprint(t[1]), vn)}
		}
		errs := make([]any, len(g.Errs))
		for i, e := range g.Errs {
			errs[i] = widen(e, vn)
		}
		obs := lexObserve(text)
		lw.write(J{"e": "lex", "id": n, "text": text, "exptoks": toks, "experrs": errs, "accepts": g.Accepts, "unspec": g.Unspec, "obs": obs})
		if len(g.Errs) > 0 {
			nerrs++
		}
		if g.Accepts {
			nacc++
		}
		if len(samples) < 2 && len(g.Errs) > 0 && len(g.Toks) > 1 {
			samples = append(samples, J{"text": text, "expected_tokens": toks, "expected_errors": errs, "observed": obs})
		}
		n++
	})
	lw.close()
	printJSON(J{"cases": n, "with_lexer_errors": nerrs, "accepted": nacc, "samples": samples})
}
