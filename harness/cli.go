package main

// C20: the numscript binary (built from the working tree) against the library, on the channel
// configurations enumerated by Cli.tla.

import (
	"unicode/utf16"
	"bytes"
	"context"
	"encoding/json"
	"fmt"
	"math/big"
	"math/rand"
	"os"
	"os/exec"
	"path/filepath"
	"reflect"
	"strings"
	"time"

	"github.com/formancehq/numscript/internal/analysis"
	"github.com/formancehq/numscript/internal/interpreter"
	"github.com/formancehq/numscript/internal/parser"
)

type cliField struct {
	Field  string `json:"field"`
	Raw    string `json:"raw"`
	Opt    string `json:"opt"`
	Stdin  string `json:"stdin"`
	Winner int    `json:"winner"`
}

type cliInput struct {
	script string
	vars   map[string]string
	bal    map[string]map[string]*big.Int
	meta   map[string]map[string]string
}

func bigBalances(c *Case, r *rand.Rand) map[string]map[string]*big.Int {
	out := map[string]map[string]*big.Int{}
	for a, m := range c.Bal {
		out[a] = map[string]*big.Int{}
		for as, v := range m {
			x := big.NewInt(v)
			if r.Intn(3) == 0 { // amounts beyond 2^64
				x.Mul(x, new(big.Int).Lsh(big.NewInt(1), 70))
				if r.Intn(4) != 0 && x.Sign() != 0 {
					// ... and not a round binary number: every one of its digits matters (a send-all moves exactly this)
					x.Add(x, big.NewInt(int64(1+r.Intn(999))))
				}
			}
			out[a][as] = x
		}
	}
	return out
}

func libRun(in cliInput, flagOvd bool) (st string, out string, msg string) {
	defer func() {
		if r := recover(); r != nil {
			st, out, msg = "panic", "", fmt.Sprint(r)
		}
	}()
	pr := parser.Parse(in.script)
	if len(pr.Errors) != 0 {
		return "parse-error", "", parser.ParseErrorsToString(pr.Errors, in.script)
	}
	ff := map[string]struct{}{}
	if flagOvd {
		ff[interpreter.ExperimentalOverdraftFunctionFeatureFlag] = struct{}{}
	}
	bal := interpreter.Balances{}
	for a, m := range in.bal {
		bal[a] = interpreter.AccountBalance{}
		for as, v := range m {
			bal[a][as] = new(big.Int).Set(v)
		}
	}
	meta := interpreter.AccountsMetadata{}
	for a, m := range in.meta {
		meta[a] = interpreter.AccountMetadata{}
		for k, v := range m {
			meta[a][k] = v
		}
	}
	vars := map[string]string{}
	for k, v := range in.vars {
		vars[k] = v
	}
	res, err := interpreter.RunProgram(context.Background(), pr.Value, vars, interpreter.StaticStore{Balances: bal, Meta: meta}, ff)
	if err != nil {
		return errClass(err), "", err.Error()
	}
	b, jerr := json.Marshal(res)
	if jerr != nil {
		return "marshal-error", "", jerr.Error()
	}
	return "ok", string(b), ""
}

func runBin(bin string, args []string, stdin string) (exit int, stdout, stderr string, crashed bool) {
	ctx, cancel := context.WithTimeout(context.Background(), 30*time.Second)
	defer cancel()
	cmd := exec.CommandContext(ctx, bin, args...)
	cmd.Stdin = strings.NewReader(stdin)
	var so, se bytes.Buffer
	cmd.Stdout, cmd.Stderr = &so, &se
	err := cmd.Run()
	exit = 0
	if err != nil {
		if ee, ok := err.(*exec.ExitError); ok {
			exit = ee.ExitCode()
		} else {
			exit = -1
		}
	}
	stderr = se.String()
	crashed = exit == 2 && strings.Contains(stderr, "goroutine ") || exit < 0 || strings.Contains(stderr, "panic:")
	return exit, so.String(), stderr, crashed
}

// altSpelling: when set, JSON inputs are written in another legal spelling of the same document (what other producers emit):
// "/" as "\/", every non-ASCII character as \uXXXX (surrogate pairs beyond the BMP), blanks between the tokens
var altSpelling bool

func altJSON(b []byte) []byte {
	if !altSpelling {
		return b
	}
	var sb strings.Builder
	inStr, esc := false, false
	for _, r := range string(b) {
		switch {
		case esc:
			esc = false
			sb.WriteRune(r)
		case inStr && r == '\\':
			esc = true
			sb.WriteRune(r)
		case r == '"':
			inStr = !inStr
			sb.WriteRune(r)
		case inStr && r == '/':
			sb.WriteString("\\/")
		case inStr && r > 0xFFFF:
			r1, r2 := utf16.EncodeRune(r)
			fmt.Fprintf(&sb, "\\u%04x\\u%04x", r1, r2)
		case inStr && r > 0x7e:
			fmt.Fprintf(&sb, "\\u%04x", r)
		case !inStr && (r == ':' || r == ','):
			sb.WriteRune(r)
			sb.WriteString(" ")
		default:
			sb.WriteRune(r)
		}
	}
	return []byte(sb.String())
}

func writeJSONFile(dir, name string, v any) string {
	p := filepath.Join(dir, name)
	b, _ := json.Marshal(v)
	os.WriteFile(p, altJSON(b), 0o644)
	return p
}

// vh cli-check <configs.ndjson> <seed> <n> <binary> <tmpdir> <out.ndjson>
func cmdCliCheck(args []string) {
	if len(args) != 6 {
		die(2, "usage: vh cli-check <configs> <seed> <n> <binary> <tmpdir> <out>")
	}
	var cfgs [][]cliField
	readLines(args[0], func(b []byte) {
		var c []cliField
		if err := json.Unmarshal(b, &c); err != nil {
			die(2, "bad config: %v", err)
		}
		cfgs = append(cfgs, c)
	})
	seed, n := argInt(args[1]), argInt(args[2])
	bin, tmp := args[3], args[4]
	os.MkdirAll(tmp, 0o755)
	r := rand.New(rand.NewSource(int64(seed)*7368787 + 1))
	lw := newLineWriter(args[5])
	cnt, nontriv := 0, 0
	var samples []any
	outcomes := map[string]int{}
	for i := 0; i < n; i++ {
		cfg := cfgs[r.Intn(len(cfgs))]
		if i < len(cfgs) && n >= len(cfgs) {
			cfg = cfgs[i]
		}
		var c *Case
		switch r.Intn(4) {
		case 0:
			c = genIllCase(r, i)
		case 1:
			c = genStoreCase(r, i)
		default:
			c = genCase(r, corpusCfg("multi"), i)
		}
		if r.Intn(12) == 0 {
			c.Text = c.Text + "\nsend [USD 1] (" // a script with syntax errors
		}
		if r.Intn(6) == 0 { // metadata with characters that matter to formatting / escaping
			c.Text = c.Text + "\n" + pick(r, []string{`set_tx_meta("note", "fee 15% of total %d %s")`, `set_account_meta(@a, "discount", "100%")`, `set_tx_meta("q", "say \\\"hi\\\" C:\\temp")`})
		}
		if r.Intn(10) == 0 {
			// warnings only (portions that already add up to one next to `remaining`; an unused variable): not errors
			c.Text = c.Text + "\nsend [USD 10] (\n source = @world\n destination = { 1/2 to @wa 1/2 to @wb remaining to @wc }\n)"
		}
		if r.Intn(4) == 0 {
			// everything an account holds, whatever its size
			c.Text = c.Text + "\nsend [USD *] (\n source = @a\n destination = @sweep\n)"
		}
		if r.Intn(15) == 0 {
			// the smallest scripts: nothing at all, a newline, a comment, an empty vars block
			c.Text = pick(r, []string{"", "\n", "// nothing to do\n", "vars {\n}\n", "/* c */"})
		}
		if r.Intn(8) == 0 {
			// a long input (several kilobytes on whichever channel carries it): a comment and a long metadata value
			c.Text = "/* " + strings.Repeat("padding of the script, line after line. ", 80) + "*/\n" + c.Text +
				"\nset_tx_meta(\"long\", \"" + strings.Repeat("0123456789abcdef", 200) + "\")"
		}
		if c.FlagOvd && r.Intn(3) == 0 {
			// a gated feature used WITHOUT its flag: both entry points must refuse it (a flag is off unless it is given)
			c.FlagOvd = false
		}
		altSpelling = r.Intn(3) == 0
		if altSpelling && r.Intn(2) == 0 {
			// a string variable with characters beyond ASCII and beyond the BMP, written to the metadata
			c.Text = "vars {\n string $memo\n}\n" + c.Text + "\nset_tx_meta(\"memo\", $memo)"
			if strings.Contains(c.Text[20:], "vars {") {
				c.Text = strings.Replace(c.Text, "vars {\n string $memo\n}\nvars {", "vars {\n string $memo\n", 1)
			}
			c.RawVars = copyVars(c.RawVars)
			c.RawVars["memo"] = "to the moon \U0001F680 caf\u00e9 a/b"
		}
		real := cliInput{script: c.Text, vars: c.RawVars, bal: bigBalances(c, r), meta: c.Meta}
		if r.Intn(5) == 0 {
			real.vars = copyVars(real.vars)
			real.vars["big"] = "USD 340282366920938463463374607431768211456"
		}
		decoy := cliInput{script: "send [USD 1] (\n source = @world\n destination = @decoy\n)", vars: map[string]string{"decoy": "1"},
			bal: map[string]map[string]*big.Int{"decoy": {"USD": big.NewInt(1)}}, meta: map[string]map[string]string{"decoy": {"k": "v"}}}
		// effective input per the specification: the last provider's value, else the default
		eff := cliInput{script: "", vars: map[string]string{}, bal: map[string]map[string]*big.Int{}, meta: map[string]map[string]string{}}
		obj := func(which func(cliField) string) (J, bool) {
			o := J{}
			used := false
			for _, f := range cfg {
				w := which(f)
				if w == "none" {
					continue
				}
				used = true
				src := real
				if w == "decoy" {
					src = decoy
				}
				switch f.Field {
				case "script":
					o["script"] = src.script
				case "variables":
					o["variables"] = src.vars
				case "balances":
					o["balances"] = src.bal
				case "metadata":
					o["metadata"] = src.meta
				}
			}
			return o, used
		}
		for _, f := range cfg {
			if f.Winner != 0 {
				switch f.Field {
				case "script":
					eff.script = real.script
				case "variables":
					eff.vars = real.vars
				case "balances":
					eff.bal = real.bal
				case "metadata":
					eff.meta = real.meta
				}
			}
		}
		dir := filepath.Join(tmp, fmt.Sprintf("c%d", i))
		os.MkdirAll(dir, 0o755)
		cliArgs := []string{"run", "--output-format", "json"}
		if c.FlagOvd {
			cliArgs = append(cliArgs, "--"+interpreter.ExperimentalOverdraftFunctionFeatureFlag)
		}
		if o, used := obj(func(f cliField) string { return f.Raw }); used {
			b, _ := json.Marshal(o)
			cliArgs = append(cliArgs, "--raw", string(altJSON(b)))
		}
		for _, f := range cfg {
			if f.Opt == "none" {
				continue
			}
			src := real
			if f.Opt == "decoy" {
				src = decoy
			}
			switch f.Field {
			case "script":
				p := filepath.Join(dir, "script.num")
				os.WriteFile(p, []byte(src.script), 0o644)
				cliArgs = append(cliArgs, p)
			case "variables":
				cliArgs = append(cliArgs, "--variables", writeJSONFile(dir, "vars.json", src.vars))
			case "balances":
				cliArgs = append(cliArgs, "--balances", writeJSONFile(dir, "bal.json", src.bal))
			case "metadata":
				cliArgs = append(cliArgs, "--meta", writeJSONFile(dir, "meta.json", src.meta))
			}
		}
		stdin := ""
		if o, used := obj(func(f cliField) string { return f.Stdin }); used {
			b, _ := json.Marshal(o)
			stdin = string(altJSON(b))
			cliArgs = append(cliArgs, "--stdin")
		}
		libst, libjson, libmsg := libRun(eff, c.FlagOvd)
		exit, so, se, crashed := runBin(bin, cliArgs, stdin)
		firstLine := strings.SplitN(libmsg, "\n", 2)[0]
		// the JSON document is compared, not its bytes (indentation or key order are not pinned)
		if libst == "ok" && exit == 0 && so != libjson && sameJSON(so, libjson) {
			so = libjson
		}
		line := J{"e": "cli", "n": cnt, "mode": "run", "cfg": cfg, "libst": libst, "libjson": libjson, "exit": exit, "stdout": so,
			"msgonstderr": libmsg != "" && strings.Contains(se, firstLine), "crashed": crashed, "stderr": trunc(se, 300), "script": eff.script, "args": cliArgs, "stdin": stdin,
			"nerr": 0, "ndiag": 0, "headers": 0, "allprinted": true, "resultprinted": strings.Contains(so, "\"source\"")}
		lw.write(line)
		outcomes[libst]++
		cnt++
		nproviders := 0
		for _, f := range cfg {
			for _, w := range []string{f.Raw, f.Opt, f.Stdin} {
				if w != "none" {
					nproviders++
				}
			}
		}
		if nproviders >= 5 {
			nontriv++
		}
		if len(samples) < 2 && i%37 == 5 {
			samples = append(samples, J{"args": cliArgs, "stdin": trunc(stdin, 300), "library": libst, "exit": exit, "stdout": trunc(so, 200)})
		}
		// check mode on the same script
		if i%2 == 0 {
			p := filepath.Join(dir, "check.num")
			if r.Intn(3) == 0 { // leading blank lines / indentation shift every position
				c.Text = pick(r, []string{"\n\n", "   ", "\n  \t", "\r\n"}) + c.Text
			}
			os.WriteFile(p, []byte(c.Text), 0o644)
			var res analysis.CheckResult
			ok := true
			func() {
				defer func() {
					if recover() != nil {
						ok = false
					}
				}()
				res = analysis.CheckSource(c.Text)
			}()
			if ok {
				exit, so, se, crashed := runBin(bin, []string{"check", p}, "")
				headers := strings.Count(so, p+":")
				all := true
				for _, d := range res.Diagnostics {
					if !strings.Contains(so, fmt.Sprintf("%d:%d", d.Range.Start.Line, d.Range.Start.Character)) || !strings.Contains(so, d.Kind.Message()) {
						all = false
					}
				}
				lw.write(J{"e": "cli", "n": cnt, "mode": "check", "cfg": []any{}, "libst": "", "libjson": "", "exit": exit, "stdout": trunc(so, 600), "msgonstderr": false, "crashed": crashed,
					"stderr": trunc(se, 300), "script": c.Text, "args": []string{"check", p}, "stdin": "", "nerr": countErrors(res.Diagnostics), "ndiag": len(res.Diagnostics), "headers": headers, "allprinted": all, "resultprinted": false})
				cnt++
			}
		}
		// the files stay until the run is over: a candidate is confirmed by running the same command line again
	}
	// check mode on files with very many errors: the exit status of a process keeps eight bits, so a status derived from the
	// number of errors must not wrap to "success" (255, 256, 257, 512 error diagnostics)
	for _, target := range []int{255, 256, 257, 512} {
		var sb strings.Builder
		sb.WriteString("send [USD 1] (\n source = @world\n destination = @a\n)\n")
		for k := 0; k < target; k++ {
			fmt.Fprintf(&sb, "set_tx_meta(\"k%d\", $undeclared_%d)\n", k, k)
		}
		text := sb.String()
		res := analysis.CheckSource(text)
		dir := filepath.Join(tmp, fmt.Sprintf("many%d", target))
		os.MkdirAll(dir, 0o755)
		p := filepath.Join(dir, "check.num")
		os.WriteFile(p, []byte(text), 0o644)
		exit, so, se, crashed := runBin(bin, []string{"check", p}, "")
		all := true
		for _, d := range res.Diagnostics {
			if !strings.Contains(so, fmt.Sprintf("%d:%d", d.Range.Start.Line, d.Range.Start.Character)) || !strings.Contains(so, d.Kind.Message()) {
				all = false
			}
		}
		lw.write(J{"e": "cli", "n": cnt, "mode": "check", "cfg": []any{}, "libst": "", "libjson": "", "exit": exit, "stdout": trunc(so, 600), "msgonstderr": false, "crashed": crashed,
			"stderr": trunc(se, 300), "script": text, "args": []string{"check", p}, "stdin": "", "nerr": countErrors(res.Diagnostics), "ndiag": len(res.Diagnostics), "headers": strings.Count(so, p+":"), "allprinted": all, "resultprinted": false})
		cnt++
	}
	lw.close()
	printJSON(J{"cases": cnt, "nontrivial": nontriv, "outcomes": outcomes, "samples": samples})
}

func sameJSON(a, b string) bool {
	var x, y any
	da := json.NewDecoder(strings.NewReader(a))
	da.UseNumber()
	db := json.NewDecoder(strings.NewReader(b))
	db.UseNumber()
	if da.Decode(&x) != nil || db.Decode(&y) != nil {
		return false
	}
	return reflect.DeepEqual(x, y)
}

func countErrors(ds []analysis.Diagnostic) int {
	n := 0
	for _, d := range ds {
		if d.Kind.Severity() == analysis.ErrorSeverity {
			n++
		}
	}
	return n
}

func trunc(s string, n int) string {
	if len(s) > n {
		return s[:n]
	}
	return s
}
