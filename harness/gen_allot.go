package main

// C06 corpus: one allotment on one side of a single send, every clause on its own account.

import (
	"fmt"
	"math/rand"
)

func gcdInt(a, b int) int {
	for b != 0 {
		a, b = b, a%b
	}
	if a < 0 {
		return -a
	}
	return a
}

// split L into k non-negative parts
func splitParts(r *rand.Rand, L, k int) []int {
	parts := make([]int, k)
	left := L
	for i := 0; i < k-1; i++ {
		var p int
		switch r.Intn(6) {
		case 0:
			p = 0
		case 1:
			p = 1
		default:
			p = r.Intn(left + 1)
			if r.Intn(2) == 0 {
				p = p / 2
			}
		}
		if p > left {
			p = left
		}
		parts[i] = p
		left -= p
	}
	parts[k-1] = left
	r.Shuffle(k, func(i, j int) { parts[i], parts[j] = parts[j], parts[i] })
	return parts
}

func portionSpelling(r *rand.Rand, num, den int) J {
	// num/den possibly reduced, or as a percentage when den divides 100 / 1000
	g := gcdInt(num, den)
	e := ePortion(num, den)
	switch r.Intn(4) {
	case 0:
		if g > 0 {
			e = ePortion(num/g, den/g)
		}
	case 1:
		if 100%den == 0 {
			e = J{"k": "portion", "n": num * (100 / den), "d": 100, "txt": fmt.Sprintf("%d%%", num*(100/den))}
		} else if 1000%den == 0 {
			v := num * (1000 / den)
			e = J{"k": "portion", "n": v, "d": 1000, "txt": fmt.Sprintf("%d.%d%%", v/10, v%10)}
		}
	}
	if _, ok := e["txt"]; !ok {
		e["txt"] = fmt.Sprintf("%v/%v", e["n"], e["d"])
	}
	return e
}

var allotDens = []int{2, 3, 4, 6, 7, 8, 10, 12, 60, 100, 840, 1000, 9, 16, 25}

func genAllotCase(r *rand.Rand, id int) *Case {
	c := &Case{ID: id, Corpus: "allot", VarVals: map[string]J{}, RawVars: map[string]string{},
		Bal: map[string]map[string]int64{}, Meta: map[string]map[string]string{}}
	asset := pick(r, []string{"USD", "EUR/2"})
	k := 1 + r.Intn(5)
	L := pick(r, allotDens)
	parts := splitParts(r, L, k)
	bad := r.Intn(12) == 0 // portions that do not add up to one
	if bad {
		i := r.Intn(k)
		if parts[i] > 0 && r.Intn(2) == 0 {
			parts[i]--
		} else {
			parts[i]++
		}
	}
	useRem := !bad && r.Intn(3) == 0
	remAt := r.Intn(k)
	items := make([]J, k)
	nvars := 0
	// the same portion variable in two clauses of one allotment
	dupI, dupJ := -1, -1
	if k >= 2 && r.Intn(5) == 0 {
		i, j := r.Intn(k), r.Intn(k)
		if i != j && (parts[i]+parts[j])%2 == 0 && !(useRem && (i == remAt || j == remAt)) {
			h := (parts[i] + parts[j]) / 2
			parts[i], parts[j] = h, h
			dupI, dupJ = i, j
			if i > j {
				dupI, dupJ = j, i
			}
		}
	}
	for i := 0; i < k; i++ {
		if useRem && i == remAt {
			items[i] = eRemaining()
			continue
		}
		if i == dupJ && items[dupI] != nil && items[dupI]["k"] == "var" {
			items[i] = eVar(items[dupI]["name"].(string))
			continue
		}
		p := portionSpelling(r, parts[i], L)
		if (r.Intn(5) == 0 || i == dupI) && p["n"].(int) <= p["d"].(int) {
			// hand the portion over as a variable
			name := fmt.Sprintf("p%c", 'a'+nvars)
			nvars++
			val := J{"t": "portion", "n": p["n"], "d": p["d"]}
			g := gcdInt(p["n"].(int), p["d"].(int))
			txt := fmt.Sprintf("%d/%d", p["n"], p["d"])
			if g > 1 && r.Intn(2) == 0 {
				txt = fmt.Sprintf("%d/%d", p["n"].(int)/g, p["d"].(int)/g)
			}
			if d := p["d"].(int); 1000%d == 0 && r.Intn(2) == 0 {
				v := p["n"].(int) * (1000 / d) // the same value spelled as a percentage with one decimal
				txt = fmt.Sprintf("%d.%d%%", v/10, v%10)
			}
			c.RawVars[name] = txt
			c.VarVals[name] = val
			c.Decls = append(c.Decls, J{"type": "portion", "name": name, "origin": J{"k": "none"}})
			items[i] = eVar(name)
		} else {
			items[i] = p
		}
	}
	var n int
	switch r.Intn(5) {
	case 0:
		n = r.Intn(12)
	case 1:
		n = L*r.Intn(20) + r.Intn(3)
	default:
		n = r.Intn(100000)
	}
	srcSide := r.Intn(2) == 0
	var src, dst J
	if srcSide {
		it := []any{}
		for i, p := range items {
			var sub J = J{"k": "ovdu", "e": eAcct(fmt.Sprintf("s%d", i))}
			if r.Intn(6) == 0 {
				// an allotment nested in a clause (its shares are computed while the outer ones are still in use)
				sub = J{"k": "allot", "it": []any{
					J{"p": J{"k": "portion", "n": 1, "d": 4, "txt": "1/4"}, "s": J{"k": "ovdu", "e": eAcct(fmt.Sprintf("s%da", i))}},
					J{"p": J{"k": "portion", "n": 3, "d": 4, "txt": "3/4"}, "s": J{"k": "ovdu", "e": eAcct(fmt.Sprintf("s%db", i))}}}}
				if r.Intn(2) == 0 {
					sub = J{"k": "seq", "s": []any{sub}}
				}
			}
			it = append(it, J{"p": p, "s": sub})
		}
		src = J{"k": "allot", "it": it}
		dst = J{"k": "acct", "e": eAcct("d")}
	} else {
		it := []any{}
		for i, p := range items {
			var to J = J{"k": "acct", "e": eAcct(fmt.Sprintf("d%d", i))}
			if r.Intn(10) == 0 {
				to = J{"k": "kept"}
			} else if r.Intn(8) == 0 {
				to = J{"k": "allot", "it": []any{
					J{"p": J{"k": "portion", "n": 1, "d": 3, "txt": "1/3"}, "to": J{"k": "acct", "e": eAcct(fmt.Sprintf("d%da", i))}},
					J{"p": J{"k": "remaining"}, "to": J{"k": "acct", "e": eAcct(fmt.Sprintf("d%db", i))}}}}
			}
			it = append(it, J{"p": p, "to": to})
		}
		src = J{"k": "acct", "e": eAcct("world")}
		dst = J{"k": "allot", "it": it}
	}
	c.Stmts = []any{J{"k": "send", "all": false, "sent": eMon(eAsset(asset), eNum(n)), "src": src, "dst": dst}}
	if c.Decls == nil {
		c.Decls = []any{}
	}
	c.Text = printProgram(c.Decls, c.Stmts)
	return c
}
