package main

// Front end (parser / checker / hover): observation of the real code on texts
// printed by the specification (Syntax.tla), projected to the vocabulary the
// specification uses: pre-order node list with ranges, flattened tree,
// diagnostics as (kind, severity, range), hover / definition per position.

import (
	"sync"
	"fmt"
	"math/big"
	"reflect"
	"strings"

	"github.com/formancehq/numscript/internal/analysis"
	"github.com/formancehq/numscript/internal/parser"
)

type nodeList struct{ out []any }

func (n *nodeList) add(kind string, r parser.Range, name string) {
	n.out = append(n.out, []any{kind, r.Start.Line, r.Start.Character, r.End.Line, r.End.Character, name})
}

func (n *nodeList) expr(e parser.ValueExpr) {
	switch e := e.(type) {
	case *parser.Variable:
		n.add("Variable", e.Range, e.Name)
	case *parser.AccountLiteral:
		n.add("AccountLiteral", e.Range, "")
	case *parser.AssetLiteral:
		n.add("AssetLiteral", e.Range, "")
	case *parser.StringLiteral:
		n.add("StringLiteral", e.Range, "")
	case *parser.NumberLiteral:
		n.add("NumberLiteral", e.Range, "")
	case *parser.RatioLiteral:
		n.add("RatioLiteral", e.Range, "")
	case *parser.MonetaryLiteral:
		n.add("MonetaryLiteral", e.Range, "")
		n.expr(e.Asset)
		n.expr(e.Amount)
	case *parser.BinaryInfix:
		n.add("BinaryInfix", e.Range, "")
		n.expr(e.Left)
		n.expr(e.Right)
	default:
		pfail("expr %T", e)
	}
}

func (n *nodeList) allot(a parser.AllotmentValue) {
	switch a := a.(type) {
	case *parser.RemainingAllotment:
		n.add("RemainingAllotment", a.Range, "")
	case *parser.RatioLiteral:
		n.add("RatioLiteral", a.Range, "")
	case *parser.Variable:
		n.add("Variable", a.Range, a.Name)
	default:
		pfail("allotment %T", a)
	}
}

func (n *nodeList) source(s parser.Source) {
	switch s := s.(type) {
	case *parser.SourceAccount:
		n.expr(s.ValueExpr)
	case *parser.SourceOverdraft:
		n.add("SourceOverdraft", s.Range, "")
		n.expr(s.Address)
		if s.Bounded != nil {
			n.expr(*s.Bounded)
		}
	case *parser.SourceInorder:
		n.add("SourceInorder", s.Range, "")
		for _, x := range s.Sources {
			n.source(x)
		}
	case *parser.SourceCapped:
		n.add("SourceCapped", s.Range, "")
		n.expr(s.Cap)
		n.source(s.From)
	case *parser.SourceAllotment:
		n.add("SourceAllotment", s.Range, "")
		for _, it := range s.Items {
			n.add("SourceAllotmentItem", it.Range, "")
			n.allot(it.Allotment)
			n.source(it.From)
		}
	default:
		pfail("source %T", s)
	}
}

func (n *nodeList) kod(k parser.KeptOrDestination) {
	switch k := k.(type) {
	case *parser.DestinationKept:
		n.add("DestinationKept", k.Range, "")
	case *parser.DestinationTo:
		n.dest(k.Destination)
	default:
		pfail("kod %T", k)
	}
}

func (n *nodeList) dest(d parser.Destination) {
	switch d := d.(type) {
	case *parser.DestinationAccount:
		n.expr(d.ValueExpr)
	case *parser.DestinationInorder:
		n.add("DestinationInorder", d.Range, "")
		for _, c := range d.Clauses {
			n.add("DestinationInorderClause", c.Range, "")
			n.expr(c.Cap)
			n.kod(c.To)
		}
		n.kod(d.Remaining)
	case *parser.DestinationAllotment:
		n.add("DestinationAllotment", d.Range, "")
		for _, it := range d.Items {
			n.add("DestinationAllotmentItem", it.Range, "")
			n.allot(it.Allotment)
			n.kod(it.To)
		}
	default:
		pfail("dest %T", d)
	}
}

func (n *nodeList) sent(v parser.SentValue) {
	switch v := v.(type) {
	case *parser.SentValueAll:
		n.add("SentValueAll", v.Range, "")
		n.expr(v.Asset)
	case *parser.SentValueLiteral:
		n.add("SentValueLiteral", v.Range, "")
		n.expr(v.Monetary)
	default:
		pfail("sent %T", v)
	}
}

func (n *nodeList) call(c *parser.FnCall) {
	if c == nil || c.Caller == nil {
		pfail("nil call")
	}
	n.add("FnCall", c.Range, "")
	n.add("FnCallIdentifier", c.Caller.Range, c.Caller.Name)
	for _, a := range c.Args {
		n.expr(a)
	}
}

func walkProgram(p parser.Program) (out []any, err error) {
	defer func() {
		if r := recover(); r != nil {
			if pe, ok := r.(projErr); ok {
				err = pe
				return
			}
			panic(r)
		}
	}()
	n := &nodeList{out: []any{}}
	for _, d := range p.Vars {
		if d.Type == nil || d.Name == nil {
			pfail("declaration with holes")
		}
		n.add("VarDeclaration", d.Range, "")
		n.add("TypeDecl", d.Type.Range, d.Type.Name)
		n.add("DeclName", d.Name.Range, d.Name.Name)
		if d.Origin != nil {
			n.call(d.Origin)
		}
	}
	for _, s := range p.Statements {
		switch s := s.(type) {
		case *parser.SendStatement:
			n.add("SendStatement", s.Range, "")
			n.sent(s.SentValue)
			n.source(s.Source)
			n.dest(s.Destination)
		case *parser.SaveStatement:
			n.add("SaveStatement", s.Range, "")
			n.sent(s.SentValue)
			n.expr(s.Amount)
		case *parser.FnCall:
			n.call(s)
		default:
			pfail("statement %T", s)
		}
	}
	return n.out, nil
}

// ---- flattening (mirrors Syntax!FProg) ------------------------------------

func flatExpr(e J, out *[]any) {
	switch e["k"] {
	case "var":
		*out = append(*out, "var", e["name"])
	case "acct", "asset", "str":
		*out = append(*out, e["k"], e["v"])
	case "num":
		if e["big"] == true {
			*out = append(*out, "numbig", e["s"])
			return
		}
		*out = append(*out, "num", fmt.Sprint(e["v"]))
	case "portion":
		if e["big"] == true {
			*out = append(*out, "portionbig", e["ns"], e["ds"])
			return
		}
		n, d := big.NewInt(int64(e["n"].(int))), big.NewInt(int64(e["d"].(int)))
		g := new(big.Int).GCD(nil, nil, n, d)
		if g.Sign() == 0 {
			*out = append(*out, "portion", "0", "0")
		} else {
			*out = append(*out, "portion", new(big.Int).Div(n, g).String(), new(big.Int).Div(d, g).String())
		}
	case "remaining":
		*out = append(*out, "remaining")
	case "mon":
		*out = append(*out, "mon(")
		flatExpr(e["asset"].(J), out)
		flatExpr(e["amt"].(J), out)
		*out = append(*out, ")")
	case "infix":
		*out = append(*out, "infix(", e["op"])
		flatExpr(e["l"].(J), out)
		flatExpr(e["r"].(J), out)
		*out = append(*out, ")")
	}
}

func flatSource(s J, out *[]any) {
	switch s["k"] {
	case "acct":
		*out = append(*out, "src(")
		flatExpr(s["e"].(J), out)
	case "ovd":
		*out = append(*out, "ovd(")
		flatExpr(s["e"].(J), out)
		flatExpr(s["b"].(J), out)
	case "ovdu":
		*out = append(*out, "ovdu(")
		flatExpr(s["e"].(J), out)
	case "seq":
		*out = append(*out, "seq(")
		for _, x := range asList(s["s"]) {
			flatSource(x.(J), out)
		}
	case "cap":
		*out = append(*out, "cap(")
		flatExpr(s["c"].(J), out)
		flatSource(s["s"].(J), out)
	case "allot":
		*out = append(*out, "sallot(")
		for _, x := range asList(s["it"]) {
			*out = append(*out, "item(")
			flatExpr(x.(J)["p"].(J), out)
			flatSource(x.(J)["s"].(J), out)
			*out = append(*out, ")")
		}
	}
	*out = append(*out, ")")
}

func flatDest(d J, out *[]any) {
	switch d["k"] {
	case "kept":
		*out = append(*out, "kept")
		return
	case "acct":
		*out = append(*out, "dst(")
		flatExpr(d["e"].(J), out)
	case "ord":
		*out = append(*out, "ord(")
		for _, x := range asList(d["cl"]) {
			*out = append(*out, "clause(")
			flatExpr(x.(J)["c"].(J), out)
			flatDest(x.(J)["to"].(J), out)
			*out = append(*out, ")")
		}
		*out = append(*out, "rem")
		flatDest(d["rem"].(J), out)
	case "allot":
		*out = append(*out, "dallot(")
		for _, x := range asList(d["it"]) {
			*out = append(*out, "item(")
			flatExpr(x.(J)["p"].(J), out)
			flatDest(x.(J)["to"].(J), out)
			*out = append(*out, ")")
		}
	}
	*out = append(*out, ")")
}

func flatProgram(vars, stmts []any) []any {
	out := []any{}
	for _, v := range vars {
		d := v.(J)
		out = append(out, "decl(", d["type"], d["name"])
		o := d["origin"].(J)
		if o["k"] == "call" {
			out = append(out, "=", o["name"])
			for _, a := range asList(o["args"]) {
				flatExpr(a.(J), &out)
			}
		}
		out = append(out, ")")
	}
	for _, s := range stmts {
		st := s.(J)
		mode := func() string {
			if st["all"].(bool) {
				return "all"
			}
			return "amount"
		}
		switch st["k"] {
		case "send":
			out = append(out, "send(", mode())
			flatExpr(st["sent"].(J), &out)
			flatSource(st["src"].(J), &out)
			flatDest(st["dst"].(J), &out)
		case "save":
			out = append(out, "save(", mode())
			flatExpr(st["sent"].(J), &out)
			flatExpr(st["e"].(J), &out)
		case "call":
			out = append(out, "call(", st["name"])
			for _, a := range asList(st["args"]) {
				flatExpr(a.(J), &out)
			}
		}
		out = append(out, ")")
	}
	return out
}

// ---- diagnostics ---------------------------------------------------------------

func diagKind(d analysis.Diagnostic) string {
	t := reflect.TypeOf(d.Kind)
	for t.Kind() == reflect.Ptr {
		t = t.Elem()
	}
	return t.Name()
}

func diagName(d analysis.Diagnostic) string {
	v := reflect.ValueOf(d.Kind)
	for v.Kind() == reflect.Ptr {
		v = v.Elem()
	}
	if v.Kind() == reflect.Struct {
		f := v.FieldByName("Name")
		if f.IsValid() && f.Kind() == reflect.String {
			return f.String()
		}
	}
	return ""
}

func diagsToJSON(ds []analysis.Diagnostic) []any {
	out := []any{}
	for _, d := range ds {
		out = append(out, []any{diagKind(d), int(d.Kind.Severity()), d.Range.Start.Line, d.Range.Start.Character, d.Range.End.Line, d.Range.End.Character, diagName(d)})
	}
	return out
}

// Texts with diagnostics of (nearly) every kind.  They are analysed, and every message rendered the way the command line and
// the language server do, ONCE per process before the first observed text: what the checker says about a text must not depend on
// what the process analysed or printed before (package-level tables, pools, caches).
var provocations = []string{
	"vars {\n acount $a\n monetary $m\n monetary $m\n numbr $n\n portion $p\n strng $s = meta(@a, \"k\")\n}\n" +
		"send [USD 10] (\n source = $undefined\n destination = { 1/2 to @a 1/3 to @b }\n)\n" +
		"send [USD *] (\n source = { 1/2 from @a remaining from @b }\n destination = @c\n)\n" +
		"send [USD 1] (\n source = @world allowing unbounded overdraft\n destination = @a\n)\n" +
		"send [USD 1] (\n source = { @a allowing unbounded overdraft @b }\n destination = { 1/0 to @b remaining kept }\n)\n" +
		"send [USD 10] (\n source = { @a @a }\n destination = { 1/2 to @a 1/2 to @b remaining to @c }\n)\n" +
		"send @a (\n source = @a\n destination = { $p to @a }\n)\nfoo(1)\nset_tx_meta(\"k\")\nset_tx_meta(1 + @a, [USD 1] - 2)\n",
	"send [USD 1] (",
	// (allotments whose only unknown is one portion variable: the checker computes what it must be worth)
	"vars {\n portion $p\n}\nsend [USD 9] (\n source = @a\n destination = { 1/3 to @b $p to @c }\n)\nsend [USD 9] (\n source = { 1/4 from @a 1/4 from @b $p from @c }\n destination = @d\n)\n" +
		"send [USD 9] (\n source = @a\n destination = { 3/10 to @b 10% to @c $p to @d }\n)\n",
	"vars { account $x = meta($x, \"k\") bogus $y }\nsave [USD *] from $y\nsend [EUR 2] (source = { remaining from @a 1/2 from @b } destination = @c)\n",
}
var provokeOnce sync.Once

func provoke() {
	for _, t := range provocations {
		func() {
			defer func() { recover() }()
			res := analysis.CheckSource(t)
			for _, d := range res.Diagnostics {
				_ = d.Kind.Message()
				_ = d.Kind.Severity()
			}
			_ = parser.ParseErrorsToString(parser.Parse(t).Errors, t)
			_ = res.GetSymbols()
		}()
	}
}

// frontObserve runs parser (and optionally analysis) on one text
func frontObserve(text string, withCheck bool) J {
	if withCheck {
		provokeOnce.Do(provoke)
	}
	obs := J{"panic": "", "nerr": 0, "nodes": []any{}, "flat": []any{}, "holes": false, "diags": []any{}}
	func() {
		defer func() {
			if r := recover(); r != nil {
				obs["panic"] = "parse: " + oneLine(fmt.Sprint(r))
			}
		}()
		pr := parser.Parse(text)
		obs["nerr"] = len(pr.Errors)
		nodes, err := walkProgram(pr.Value)
		if err != nil {
			obs["holes"] = true
			return
		}
		obs["nodes"] = nodes
		vars, stmts, err := projProgram(pr.Value)
		if err != nil {
			obs["holes"] = true
			return
		}
		obs["flat"] = flatProgram(vars, stmts)
	}()
	if withCheck && obs["panic"] == "" {
		func() {
			defer func() {
				if r := recover(); r != nil {
					obs["panic"] = "check: " + oneLine(fmt.Sprint(r))
				}
			}()
			res := analysis.CheckSource(text)
			obs["diags"] = diagsToJSON(res.Diagnostics)
			for _, d := range res.Diagnostics { // every consumer renders the messages
				_ = d.Kind.Message()
			}
		}()
	}
	return obs
}

var _ = strings.Join

// vh front-replay <replay.json> <out.ndjson>: observe the real front end again on the text of a replay file
func cmdFrontReplay(args []string) {
	if len(args) != 2 {
		die(2, "usage: vh front-replay <replay> <out>")
	}
	b, err := readFile(args[0])
	if err != nil {
		die(2, "%v", err)
	}
	var rp struct {
		Kind    string   `json:"kind"`
		Case    J        `json:"case"`
		History []string `json:"history"`
	}
	if err := jsonUnmarshal(b, &rp); err != nil {
		die(2, "%v", err)
	}
	// a violation that depends on what the process handled before is replayed after those texts
	for _, h := range rp.History {
		frontObserve(h, rp.Kind != "front")
	}
	c := rp.Case
	lw := newLineWriter(args[1])
	c["n"] = 0
	switch rp.Kind {
	case "front":
		c["obs"] = frontObserve(c["text"].(string), false)
	default:
		if !frontReplayOther(rp.Kind, c) {
			die(2, "unknown replay kind %s", rp.Kind)
		}
	}
	lw.write(c)
	lw.close()
	printJSON(J{"ok": true})
}
