package main

// Seeded generators of interpreter test cases (script tree + inputs).
// No semantics here: the generator only knows how to build well-formed trees
// and the typed value behind every variable text it hands out.

import (
	"fmt"
	"math/rand"
)

type Case struct {
	ID      int
	Corpus  string
	Text    string
	Decls   []any                       // generated declarations (type, name, origin)
	Stmts   []any                       // generated statements
	VarVals map[string]J                // typed value behind each variable (or {t:missing} / {t:err,e:class})
	RawVars map[string]string           // variables handed to Run
	Bal     map[string]map[string]int64 // store content
	Meta    map[string]map[string]string
	FlagOvd bool
}

type genCfg struct {
	name     string
	accts    []string // account names used in sources (besides world)
	dsts     []string // account names used in destinations
	assets   []string
	nums     []int
	balNums  []int
	maxVars  int
	maxStmts int
	srcDepth int
	dstDepth int
	// statement kinds (weights out of 10): send, save, txmeta, acctmeta
	wSend, wSave, wTx, wAm int
	sendAllRate            int // 1/n sends are send-all (0 = never)
	onlyAll                bool
	allowOvd, allowOvdu    bool
	allowCap, allowSrcAllot bool
	allowWorld             bool
	allowKept, allowOrd, allowDstAllot bool
	negNums                bool // negative caps / bounds / amounts
	mismatchRate           int  // 1/n monetaries get a foreign asset (0 = never)
	infix                  bool
	origins                bool // balance()/meta() origins
	worldSrcOnly           bool // C05: the source is @world (or one funded account under send-all)
	plainDst               bool // C04: the destination is one plain account
	repeatAcct             bool // allow the same account several times in a source
	unspecified            bool // allow the corners the properties leave open
	portionVars            bool
	varBounds              bool // overdraft bounds may be arbitrary monetary expressions (front-end corpora)
	deepInfix              bool // chains of several + / - (left-nested)
	worldVars              bool // account variables may be valued "world"
	negBounds              bool // overdraft bounds may be negative literals (a negative bound takes from what the balance alone would give)
	monVars                bool // many monetary variables, used (and re-used) wherever a monetary is expected
	readBack               bool // every usable variable is written to the transaction metadata at the end of the script: a variable is a value, no statement changes it
}

type gen struct {
	r    *rand.Rand
	cfg  genCfg
	vars []J // declared vars (with "val")
	bal  map[string]map[string]int64 // the store content of the case (for amounts exactly equal to a balance)
}

func pick[T any](r *rand.Rand, xs []T) T { return xs[r.Intn(len(xs))] }

var portionSets = [][][2]int{
	{{1, 2}, {1, 2}}, {{1, 3}, {2, 3}}, {{1, 3}, {1, 3}, {1, 3}}, {{1, 4}, {3, 4}}, {{2, 5}, {3, 5}},
	{{1, 1}}, {{1, 7}, {2, 7}, {4, 7}}, {{1, 8}, {3, 8}, {1, 2}}, {{0, 1}, {1, 1}}, {{1, 10}, {9, 10}},
	{{1, 6}, {1, 3}, {1, 2}}, {{3, 10}, {3, 10}, {2, 5}},
	// zero shares in every position (a zero share listed early still receives a left-over unit)
	{{0, 1}, {1, 3}, {2, 3}}, {{1, 2}, {0, 5}, {1, 2}}, {{1, 3}, {2, 3}, {0, 1}}, {{0, 3}, {0, 1}, {1, 1}},
}

func (g *gen) varsOf(t string) []string {
	var out []string
	for _, v := range g.vars {
		if v["type"] == t && v["usable"] == true {
			out = append(out, v["name"].(string))
		}
	}
	return out
}

func (g *gen) num() int {
	n := pick(g.r, g.cfg.nums)
	if n < 0 && !g.cfg.negNums {
		n = -n
	}
	return n
}

func (g *gen) acct(pool []string) J {
	r := g.r
	if vs := g.varsOf("account"); len(vs) > 0 && r.Intn(4) == 0 {
		return eVar(pick(r, vs))
	}
	return eAcct(pick(r, pool))
}

// expression of a given type; asset fixes the asset of monetaries ("" = any)
func (g *gen) expr(t string, asset string, d int) J {
	r := g.r
	switch t {
	case "account":
		return g.acct(g.cfg.accts)
	case "asset":
		if vs := g.varsOf("asset"); len(vs) > 0 && r.Intn(4) == 0 {
			for _, v := range g.vars {
				if v["type"] == "asset" && v["usable"] == true && (asset == "" || v["val"].(J)["v"] == asset) && r.Intn(2) == 0 {
					return eVar(v["name"].(string))
				}
			}
		}
		if asset != "" {
			return eAsset(asset)
		}
		return eAsset(pick(r, g.cfg.assets))
	case "string":
		if vs := g.varsOf("string"); len(vs) > 0 && r.Intn(3) == 0 {
			return eVar(pick(r, vs))
		}
		return eStr(pick(r, []string{"k", "k2", "hello"}))
	case "number":
		if vs := g.varsOf("number"); len(vs) > 0 && (r.Intn(4) == 0 || (g.cfg.monVars && r.Intn(2) == 0)) {
			return eVar(pick(r, vs))
		}
		if g.cfg.infix && d > 0 && r.Intn(5) == 0 {
			e := eInfix(pick(r, []string{"+", "-"}), g.expr("number", "", 0), g.expr("number", "", 0))
			for g.cfg.deepInfix && r.Intn(2) == 0 {
				e = eInfix(pick(r, []string{"+", "-"}), e, g.expr("number", "", 0))
			}
			return e
		}
		return eNum(g.num())
	case "portion":
		if vs := g.varsOf("portion"); len(vs) > 0 && r.Intn(3) == 0 {
			return eVar(pick(r, vs))
		}
		p := pick(r, [][2]int{{1, 2}, {1, 3}, {2, 3}, {0, 1}, {1, 1}, {3, 8}})
		return ePortion(p[0], p[1])
	case "monetary":
		var cands []string
		for _, v := range g.vars {
			if v["type"] == "monetary" && v["usable"] == true && (asset == "" || v["val"].(J)["a"] == asset) {
				cands = append(cands, v["name"].(string))
			}
		}
		if len(cands) > 0 && (r.Intn(3) == 0 || (g.cfg.monVars && r.Intn(3) != 0)) {
			return eVar(pick(r, cands))
		}
		a := asset
		if a == "" {
			a = pick(r, g.cfg.assets)
		}
		if g.cfg.infix && d > 0 && r.Intn(6) == 0 {
			e := eInfix(pick(r, []string{"+", "-"}), g.expr("monetary", a, 0), g.expr("monetary", a, 0))
			for g.cfg.deepInfix && r.Intn(2) == 0 {
				e = eInfix(pick(r, []string{"+", "-"}), e, g.expr("monetary", a, 0))
			}
			return e
		}
		if g.cfg.mismatchRate > 0 && r.Intn(g.cfg.mismatchRate) == 0 {
			a = pick(r, g.cfg.assets)
		}
		return eMon(g.expr("asset", a, 0), g.expr("number", "", d))
	}
	panic(t)
}

type srcCtx struct {
	used    map[string]bool // accounts already used in this statement
	unbUsed map[string]bool
}

func (g *gen) srcAcctName(ctx *srcCtx) (J, string, bool) {
	// returns the expression, the account name it denotes, ok
	r := g.r
	for try := 0; try < 8; try++ {
		var e J
		var name string
		if vs := g.varsOf("account"); len(vs) > 0 && r.Intn(4) == 0 {
			vn := pick(r, vs)
			e = eVar(vn)
			for _, v := range g.vars {
				if v["name"] == vn {
					name = v["val"].(J)["v"].(string)
				}
			}
		} else {
			pool := g.cfg.accts
			if g.cfg.allowWorld && r.Intn(6) == 0 {
				name = "world"
			} else {
				name = pick(r, pool)
			}
			e = eAcct(name)
		}
		if !g.cfg.repeatAcct && ctx.used[name] && name != "world" {
			continue
		}
		return e, name, true
	}
	return nil, "", false
}

func (g *gen) src(asset string, d int, ctx *srcCtx, sendAll bool, capped bool) J {
	r := g.r
	c := g.cfg
	k := r.Intn(10)
	if d == 0 || k < 4 {
		e, name, ok := g.srcAcctName(ctx)
		if !ok {
			// fall back to a fresh literal that may repeat
			name = pick(r, c.accts)
			e = eAcct(name)
		}
		isVarWorld := e["k"] == "var" && name == "world"
		kind := r.Intn(6)
		unbOK := c.allowOvdu && (!sendAll || capped || c.unspecified)
		if name == "world" && sendAll && !capped && !c.unspecified {
			name = pick(r, c.accts)
			e = eAcct(name)
		}
		if isVarWorld && !c.unspecified && !c.worldVars {
			name = pick(r, c.accts)
			e = eAcct(name)
		}
		switch {
		case kind == 0 && c.allowOvd:
			if !c.unspecified && ctx.unbUsed[name] {
				break
			}
			b := g.expr("monetary", asset, 1)
			if !c.unspecified && !c.varBounds {
				// keep the bound non-negative: a literal non-negative number
				b = eMon(eAsset(asset), eNum(absInt(g.num())))
				if c.negBounds && r.Intn(4) == 0 {
					b = eMon(eAsset(asset), eNum(-absInt(g.num())))
					ctx.used[name] = true
					return J{"k": "ovd", "e": e, "b": b}
				}
				if r.Intn(3) == 0 {
					// ... or a non-negative monetary variable
					for _, v := range g.vars {
						if v["type"] == "monetary" && v["usable"] == true && v["val"].(J)["a"] == asset && v["val"].(J)["v"].(int) >= 0 {
							b = eVar(v["name"].(string))
						}
					}
				} else if c.infix && r.Intn(2) == 0 {
					// ... or a sum of non-negative monetaries, a variable on the left when there is one
					var left J = eMon(eAsset(asset), eNum(absInt(g.num())))
					for _, v := range g.vars {
						if v["type"] == "monetary" && v["usable"] == true && v["val"].(J)["a"] == asset && v["val"].(J)["v"].(int) >= 0 {
							left = eVar(v["name"].(string))
						}
					}
					b = eInfix("+", left, eMon(eAsset(asset), eNum(absInt(g.num()))))
				}
			}
			ctx.used[name] = true
			return J{"k": "ovd", "e": e, "b": b}
		case kind == 1 && unbOK:
			if !c.unspecified && ctx.used[name] {
				break
			}
			ctx.used[name] = true
			ctx.unbUsed[name] = true
			return J{"k": "ovdu", "e": e}
		}
		if !c.unspecified && ctx.unbUsed[name] {
			// an account drawn both unbounded and bounded in one statement is an open corner
			name = pick(r, c.accts)
			for try := 0; try < 8 && ctx.unbUsed[name]; try++ {
				name = pick(r, c.accts)
			}
			if ctx.unbUsed[name] {
				return J{"k": "seq", "s": []any{}}
			}
			e = eAcct(name)
		}
		ctx.used[name] = true
		return J{"k": "acct", "e": e}
	}
	if k < 7 {
		n := 1 + r.Intn(3)
		s := []any{}
		for i := 0; i < n; i++ {
			s = append(s, g.src(asset, d-1, ctx, sendAll, capped))
		}
		return J{"k": "seq", "s": s}
	}
	if k < 9 && c.allowCap {
		return J{"k": "cap", "c": g.expr("monetary", asset, 1), "s": g.src(asset, d-1, ctx, sendAll, true)}
	}
	if c.allowSrcAllot && (!sendAll || capped || c.unspecified) {
		it := []any{}
		for _, p := range g.allotPortions() {
			it = append(it, J{"p": p, "s": g.src(asset, d-1, ctx, sendAll, capped)})
		}
		return J{"k": "allot", "it": it}
	}
	return g.src(asset, 0, ctx, sendAll, capped)
}

func absInt(x int) int {
	if x < 0 {
		return -x
	}
	return x
}

func (g *gen) allotPortions() []J {
	r := g.r
	ps := pick(r, portionSets)
	useRem := r.Intn(3) == 0
	remAt := len(ps) - 1
	if r.Intn(3) == 0 {
		// `remaining` need not be written last to be executed
		remAt = r.Intn(len(ps))
	}
	var out []J
	for i, p := range ps {
		if useRem && i == remAt {
			out = append(out, eRemaining())
		} else {
			out = append(out, ePortion(p[0], p[1]))
		}
	}
	if g.cfg.unspecified && r.Intn(12) == 0 {
		// portions above one next to `remaining` (remaining first or last): cannot add up to one
		over := []J{ePortion(3, 2), ePortion(1, 2)}
		switch r.Intn(5) {
		case 3:
			// `remaining` written twice (the grammar allows it): what it means is left open, that nothing crashes is not
			return []J{eRemaining(), ePortion(1, 2), eRemaining()}
		case 4:
			return []J{ePortion(1, 3), eRemaining(), eRemaining()}
		case 0:
			return append([]J{eRemaining()}, over...)
		case 1:
			// every portion at most one, `remaining` in the middle, the ones after it push the sum above one
			return []J{ePortion(1, 2), eRemaining(), ePortion(2, 3)}
		}
		return append(over, eRemaining())
	}
	if g.cfg.portionVars {
		// replace a clause by a portion variable holding the same value
		for i := range out {
			if out[i]["k"] != "portion" || r.Intn(3) != 0 {
				continue
			}
			for _, v := range g.vars {
				if v["type"] == "portion" && v["usable"] == true {
					val := v["val"].(J)
					if val["n"].(int)*out[i]["d"].(int) == val["d"].(int)*out[i]["n"].(int) {
						out[i] = eVar(v["name"].(string))
						break
					}
				}
			}
		}
	}
	return out
}

func (g *gen) kod(asset string, d int) J {
	if g.cfg.allowKept && g.r.Intn(4) == 0 {
		return J{"k": "kept"}
	}
	return g.dst(asset, d)
}

func (g *gen) dst(asset string, d int) J {
	r := g.r
	c := g.cfg
	k := r.Intn(10)
	if d == 0 || k < 4 || (!c.allowOrd && !c.allowDstAllot) {
		return J{"k": "acct", "e": g.acct(c.dsts)}
	}
	if (k < 8 && c.allowOrd) || !c.allowDstAllot {
		n := r.Intn(4)
		cl := []any{}
		for i := 0; i < n; i++ {
			cl = append(cl, J{"c": g.expr("monetary", asset, 1), "to": g.kod(asset, d-1)})
		}
		return J{"k": "ord", "cl": cl, "rem": g.kod(asset, d-1)}
	}
	it := []any{}
	for _, p := range g.allotPortions() {
		it = append(it, J{"p": p, "to": g.kod(asset, d-1)})
	}
	return J{"k": "allot", "it": it}
}

func (g *gen) declareVars(c *Case) {
	r := g.r
	cfg := g.cfg
	nv := 0
	if cfg.maxVars > 0 {
		nv = r.Intn(cfg.maxVars + 1)
	}
	// "shared text": variables of DIFFERENT types are given the same text where it is legal for both ("10" is a number, a
	// string, an account name and an asset; "USD" a string, an account name and an asset; a string may hold the text of any
	// other variable): the meaning of a text is decided by the declared type of each variable, one by one
	shared := ""
	if nv >= 2 && r.Intn(5) == 0 {
		shared = pick(r, []string{"10", "USD"})
	}
	for vi := 0; vi < nv; vi++ {
		t := pick(r, []string{"account", "asset", "number", "monetary", "portion", "string", "account", "monetary"})
		if cfg.monVars && r.Intn(2) == 0 {
			t = pick(r, []string{"monetary", "monetary", "number"})
		}
		name := fmt.Sprintf("v%c", 'a'+vi)
		var val J
		switch t {
		case "account":
			val = J{"t": "acct", "v": pick(r, append(append([]string{}, cfg.accts...), cfg.dsts...))}
			if r.Intn(8) == 0 {
				// names with every character an account name may contain
				val = J{"t": "acct", "v": pick(r, []string{"acme-corp:main", "eu-west:pay_outs", "A1:b-2:C_3", "x-1"})}
			}
			if cfg.worldVars && r.Intn(4) == 0 {
				val = J{"t": "acct", "v": "world"}
			}
			if cfg.unspecified && r.Intn(25) == 0 {
				// texts that are not account names: the empty text, the marker used for kept funds
				val = J{"t": "err", "e": "InvalidAccountName", "v": pick(r, []string{"", "<kept>", "a b"})}
			}
		case "asset":
			val = J{"t": "asset", "v": pick(r, cfg.assets)}
		case "number":
			val = J{"t": "num", "v": g.num()}
		case "monetary":
			val = J{"t": "mon", "a": pick(r, cfg.assets), "v": g.num()}
		case "portion":
			p := pick(r, [][2]int{{1, 2}, {1, 3}, {2, 3}, {1, 4}, {2, 5}, {1, 7}, {3, 8}, {1, 10}})
			val = J{"t": "portion", "n": p[0], "d": p[1]}
		case "string":
			val = J{"t": "str", "v": pick(r, []string{"k", "s1", "s2"})}
		}
		sharedRaw := ""
		if shared != "" {
			switch {
			case t == "account":
				val, sharedRaw = J{"t": "acct", "v": shared}, shared
			case t == "asset":
				val, sharedRaw = J{"t": "asset", "v": shared}, shared
			case t == "number" && shared == "10":
				val, sharedRaw = J{"t": "num", "v": 10}, shared
			case t == "string":
				val, sharedRaw = J{"t": "str", "v": shared}, shared
				for _, prev := range g.vars { // the text of another variable, whatever its type
					if other, ok := c.RawVars[prev["name"].(string)]; ok && r.Intn(2) == 0 {
						val, sharedRaw = J{"t": "str", "v": other}, other
						break
					}
				}
			}
		}
		origin := J{"k": "none"}
		usable := val["t"] != "err"
		switch {
		case sharedRaw != "":
			c.RawVars[name] = sharedRaw
		case cfg.origins && t == "monetary" && r.Intn(3) == 0:
			acc := g.expr("account", "", 0)
			if vs := g.varsOf("account"); len(vs) > 0 && r.Intn(2) == 0 {
				acc = eVar(pick(r, vs))
			}
			as := g.expr("asset", "", 0)
			origin = J{"k": "call", "name": "balance", "args": jl(acc, as)}
			if r.Intn(3) == 0 {
				// the (feature-flagged) overdraft(): reading how far an account is overdrawn must not change what it can give
				origin = J{"k": "call", "name": "overdraft", "args": jl(acc, as)}
				c.FlagOvd = true
			}
			usable = false // its value is not known to the generator
			val = J{"t": "none"}
		case cfg.origins && r.Intn(4) == 0:
			macc := pick(r, []string{"m1", "m2"})
			key := fmt.Sprintf("k%d", vi)
			origin = J{"k": "call", "name": "meta", "args": jl(eAcct(macc), eStr(key))}
			if r.Intn(10) == 0 {
				val = J{"t": "missing"}
				usable = false
			} else {
				if c.Meta[macc] == nil {
					c.Meta[macc] = map[string]string{}
				}
				c.Meta[macc][key] = zeroPad(r, val)
				if t != "string" && r.Intn(3) == 0 {
					// the SAME metadata entry read by a second variable, of type string (any stored text is a string), declared just
					// before this one: what an origin call yields is decided by the declared type of each variable, one by one
					sname := fmt.Sprintf("s%c", 'a'+vi)
					sval := J{"t": "str", "v": c.Meta[macc][key]}
					c.VarVals[sname] = sval
					c.Decls = append(c.Decls, J{"type": "string", "name": sname, "origin": J{"k": "call", "name": "meta", "args": jl(eAcct(macc), eStr(key))}})
					g.vars = append(g.vars, J{"type": "string", "name": sname, "val": sval, "usable": true})
				}
			}
		default:
			c.RawVars[name] = zeroPad(r, val)
		}
		c.VarVals[name] = val
		d := J{"type": t, "name": name, "origin": origin}
		c.Decls = append(c.Decls, d)
		g.vars = append(g.vars, J{"type": t, "name": name, "val": val, "usable": usable})
	}
}

// the decimal text of a number / monetary, sometimes spelled with leading zeros (still base ten)
func zeroPad(r *rand.Rand, val J) string {
	if r.Intn(6) != 0 {
		return valText(val)
	}
	switch val["t"] {
	case "num":
		if n, ok := val["v"].(int); ok && n >= 0 {
			return fmt.Sprintf("0%d", n)
		}
	case "mon":
		if n, ok := val["v"].(int); ok && n >= 0 {
			return fmt.Sprintf("%s 00%d", val["a"], n)
		}
	}
	return valText(val)
}

func (g *gen) balances(c *Case) {
	r := g.r
	for _, a := range g.cfg.accts {
		for _, as := range g.cfg.assets {
			if r.Intn(5) == 0 {
				continue
			}
			v := pick(r, g.cfg.balNums)
			if c.Bal[a] == nil {
				c.Bal[a] = map[string]int64{}
			}
			c.Bal[a][as] = int64(v)
		}
	}
	if r.Intn(4) == 0 {
		// the store may hold an entry for @world (a ledger does): it is never asked for and must not matter
		c.Bal["world"] = map[string]int64{pick(r, g.cfg.assets): int64(pick(r, []int{-1000, 40, 7}))}
	}
}

func (g *gen) sendStmt() J {
	r := g.r
	c := g.cfg
	asset := pick(r, c.assets)
	all := c.onlyAll || (c.sendAllRate > 0 && r.Intn(c.sendAllRate) == 0)
	var sent J
	if all {
		sent = g.expr("asset", asset, 0)
	} else {
		sent = g.expr("monetary", asset, 1)
	}
	ctx := &srcCtx{used: map[string]bool{}, unbUsed: map[string]bool{}}
	var src J
	if c.worldSrcOnly {
		if all {
			src = J{"k": "acct", "e": eAcct(pick(r, c.accts))}
			if r.Intn(3) == 0 {
				src = J{"k": "seq", "s": []any{J{"k": "acct", "e": eAcct(c.accts[0])}, J{"k": "acct", "e": eAcct(c.accts[1])}, J{"k": "acct", "e": eAcct(c.accts[2])}}}
			}
		} else {
			src = J{"k": "acct", "e": eAcct("world")}
			if r.Intn(3) == 0 { // several senders in line, world last: the amount is always supplied
				src = J{"k": "seq", "s": []any{J{"k": "acct", "e": eAcct(c.accts[0])}, J{"k": "acct", "e": eAcct(c.accts[1])}, J{"k": "acct", "e": eAcct("world")}}}
			}
		}
	} else {
		src = g.src(asset, c.srcDepth, ctx, all, false)
	}
	var dst J
	if c.plainDst {
		dst = J{"k": "acct", "e": eAcct(pick(r, c.dsts))}
	} else {
		dst = g.dst(asset, c.dstDepth)
	}
	return J{"k": "send", "all": all, "sent": sent, "src": src, "dst": dst}
}

func (g *gen) stmt() J {
	r := g.r
	c := g.cfg
	tot := c.wSend + c.wSave + c.wTx + c.wAm
	k := r.Intn(tot)
	switch {
	case k < c.wSend:
		return g.sendStmt()
	case k < c.wSend+c.wSave:
		asset := pick(r, c.assets)
		all := r.Intn(3) == 0
		var sent J
		if all {
			sent = g.expr("asset", asset, 0)
		} else {
			sent = g.expr("monetary", asset, 1)
		}
		acc := g.expr("account", "", 0)
		if !all && r.Intn(3) == 0 && acc["k"] == "acct" {
			// exactly what the account holds (the boundary between "something is left" and "nothing is left")
			if b, ok := g.bal[acc["v"].(string)][asset]; ok && b > 0 {
				sent = eMon(eAsset(asset), eNum(int(b)))
			}
		}
		return J{"k": "save", "all": all, "sent": sent, "e": acc}
	case k < c.wSend+c.wSave+c.wTx:
		t := pick(r, []string{"account", "asset", "number", "monetary", "portion", "string"})
		return J{"k": "call", "name": "set_tx_meta", "args": jl(g.expr("string", "", 0), g.expr(t, "", 1))}
	default:
		t := pick(r, []string{"account", "asset", "number", "monetary", "portion", "string"})
		return J{"k": "call", "name": "set_account_meta", "args": jl(g.expr("account", "", 0), g.expr("string", "", 0), g.expr(t, "", 1))}
	}
}

// hierarchical names whose concatenations collide: "p" + ":" + "q:r" and "p:q" + ":" + "r" are the same text, "p:q" is both
// an account and a prefix of another; an account is identified by its whole name, never by a joined or cut text
var colonNames = map[string]string{"a": "p", "b": "p:q", "c": "q", "x": "q:r", "y": "r"}

func renamePool(xs []string) []string {
	out := make([]string, len(xs))
	for i, x := range xs {
		out[i] = x
		if n, ok := colonNames[x]; ok {
			out[i] = n
		}
	}
	return out
}

func genCase(r *rand.Rand, cfg genCfg, id int) *Case {
	if r.Intn(4) == 0 {
		cfg.accts, cfg.dsts = renamePool(cfg.accts), renamePool(cfg.dsts)
	}
	g := &gen{r: r, cfg: cfg}
	c := &Case{ID: id, Corpus: cfg.name, VarVals: map[string]J{}, RawVars: map[string]string{},
		Bal: map[string]map[string]int64{}, Meta: map[string]map[string]string{}}
	g.balances(c)
	g.bal = c.Bal
	g.declareVars(c)
	ns := 1
	if cfg.maxStmts > 1 {
		ns = 1 + r.Intn(cfg.maxStmts)
	}
	for i := 0; i < ns; i++ {
		c.Stmts = append(c.Stmts, g.stmt())
	}
	if cfg.readBack {
		for _, v := range g.vars {
			if v["usable"] == true {
				name := v["name"].(string)
				c.Stmts = append(c.Stmts, J{"k": "call", "name": "set_tx_meta", "args": jl(eStr("zz_"+name), eVar(name))})
			}
		}
	}
	if c.Decls == nil {
		c.Decls = []any{}
	}
	c.Text = printProgram(c.Decls, c.Stmts)
	return c
}

// ---------------------------------------------------------------------------
// corpora: one configuration per property (narrow by design, see DESIGN 2.5)

var baseNums = []int{0, 1, 2, 3, 5, 7, 8, 10, 12, 20, 50, 100}
var balPool = []int{-20, -8, -3, 0, 0, 1, 4, 5, 10, 12, 30, 100}

func corpusCfg(name string) genCfg {
	base := genCfg{
		name: name, accts: []string{"a", "b", "c"}, dsts: []string{"x", "y", "b"}, assets: []string{"USD", "EUR/2"},
		nums: baseNums, balNums: balPool,
		maxVars: 0, maxStmts: 1, srcDepth: 2, dstDepth: 2, wSend: 10,
		allowOvd: true, allowOvdu: true, allowCap: true, allowSrcAllot: true, allowWorld: true,
		allowKept: true, allowOrd: true, allowDstAllot: true, repeatAcct: true,
	}
	switch name {
	case "mixed": // C01 C02 C12(atomicity) and the shared statement-level invariants
		base.maxVars, base.maxStmts = 5, 3
		base.wSend, base.wSave, base.wTx, base.wAm = 6, 2, 1, 1
		base.sendAllRate = 4
		base.negNums = true
		base.nums = append([]int{-50, -12, -4, -1}, baseNums...)
		base.mismatchRate = 40
		base.infix = true
		base.origins = true
		base.unspecified = true
		base.worldVars = true
		base.portionVars = true
		base.srcDepth, base.dstDepth = 3, 2
	case "multi": // C01 C09: several statements, saves, no balance()-style origins
		base.maxVars, base.maxStmts = 3, 4
		base.wSend, base.wSave, base.wTx, base.wAm = 6, 2, 1, 1
		base.sendAllRate = 4
		base.dsts = []string{"x", "y", "a", "b", "world"}
		base.portionVars = true
		base.infix = true
		base.readBack = true
	case "save": // C08: saves among probing sends
		base.maxVars, base.maxStmts = 2, 5
		base.wSend, base.wSave, base.wTx, base.wAm = 5, 5, 0, 0
		base.sendAllRate = 2
		base.srcDepth, base.dstDepth = 1, 1
		base.dsts = []string{"x", "y", "a", "world"}
		base.nums = []int{0, 1, 2, 3, 4, 5, 7, 8, 10, 12, 20, 30}
		base.infix = true
	case "exact": // C03
		base.sendAllRate = 0
		base.maxVars = 2
		base.dstDepth = 1
		base.negNums = true
		base.negBounds = true
		base.infix = true
		base.nums = append([]int{-30, -5}, baseNums...)
	case "src": // C04: rich source, plain destination
		base.plainDst = true
		base.negBounds = true
		base.worldVars = true
		base.infix = true
		base.deepInfix = true
		base.sendAllRate = 3
		base.srcDepth = 3
		base.maxVars = 2
		base.negNums = true
		base.nums = append([]int{-30, -5}, baseNums...)
	case "dst": // C05: rich destination, trivial source
		base.worldSrcOnly = true
		base.infix = true
		base.deepInfix = true
		base.sendAllRate = 5
		base.dstDepth = 3
		base.maxVars = 2
		base.negNums = true
		base.nums = append([]int{-5}, baseNums...)
		base.balNums = []int{0, 1, 5, 10, 12, 30, 100}
	case "pair": // C07: both sides rich
		base.sendAllRate = 4
		base.srcDepth, base.dstDepth = 2, 2
		base.maxVars = 2
		base.worldVars = true
	case "pairvars": // C07 C09: both sides rich, amounts and caps given by (re-used) monetary variables, several statements
		base.sendAllRate = 5
		base.srcDepth, base.dstDepth = 2, 2
		base.maxVars, base.maxStmts = 4, 3
		base.wSend, base.wSave, base.wTx, base.wAm = 8, 1, 1, 0
		base.monVars = true
		base.worldVars = true
		base.infix = true
		base.assets = []string{"USD"}
		base.balNums = []int{0, 2, 3, 5, 10, 12, 30, 100}
		base.readBack = true
	default:
		panic("unknown corpus " + name)
	}
	return base
}
