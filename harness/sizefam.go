package main

import (
	"encoding/json"
	"fmt"
	"strings"
)

// vh size-docs <gen.ndjson> <out.ndjson>: expands the descriptors printed by SizeFam.tla into documents in the format
// Edit.tla prints (text, line table; no verdict about acceptance attached).  A printer, nothing else: N statements that
// each carry one diagnostic of the given kind, preceded by a vars block with `unused` declarations nobody uses.
func cmdSizeDocs(args []string) {
	if len(args) != 2 {
		die(2, "usage: vh size-docs <gen> <out>")
	}
	lw := newLineWriter(args[1])
	id := 0
	readLines(args[0], func(b []byte) {
		var d struct {
			N      int    `json:"n"`
			Unused int    `json:"unused"`
			Kind   string `json:"kind"`
		}
		if json.Unmarshal(b, &d) != nil || d.N < 1 {
			die(2, "bad descriptor %s", b)
		}
		var sb strings.Builder
		if d.Unused > 0 || d.Kind == "dupdecl" {
			sb.WriteString("vars {\n")
			for i := 0; i < d.Unused; i++ {
				fmt.Fprintf(&sb, " %s $u%d\n", []string{"number", "account", "monetary", "string", "asset", "portion"}[i%6], i)
			}
			if d.Kind == "dupdecl" {
				sb.WriteString(" number $x\n")
				for i := 0; i < d.N; i++ {
					sb.WriteString(" number $x\n")
				}
			}
			sb.WriteString("}\n")
		}
		for i := 0; i < d.N; i++ {
			switch d.Kind {
			case "unbound":
				fmt.Fprintf(&sb, "send $amt(source=@a%d destination=@b)\n", i%7)
			case "mismatch":
				fmt.Fprintf(&sb, "send [USD 1](source=%d destination=@b)\n", i%7)
			case "warning":
				sb.WriteString("send [USD 1](source={@world @a} destination=@b)\n")
			case "dupdecl":
				if i == 0 {
					sb.WriteString("set_tx_meta(\"k\", $x)\n")
				}
			}
		}
		t := sb.String()
		ls := []int{}
		for _, x := range strings.Split(t, "\n") {
			ls = append(ls, len([]rune(x)))
		}
		lw.write(J{"id": id, "text": t, "lines": ls, "lexok": false, "accepts": false, "unspec": true, "ntoks": 0, "desc": d})
		id++
	})
	lw.close()
	printJSON(J{"cases": id})
}
