//go:build vhooks

package main

import "github.com/formancehq/numscript/internal/interpreter"

// compiled only when the tree under test contains internal/interpreter/verif_on.go
const hooksPresent = true

func init() { interpreter.VerifHook = hookDispatch }
