package main

// The repository's own interpreter tests as a corpus: existing tests exercise more than they assert,
// so their executions are pushed through the same trace validation.  Cases whose values cannot be
// decoded into the specification's vocabulary (numbers beyond 2^31, exotic texts) are dropped.

import (
	"encoding/json"
	"math"
	"strconv"
	"strings"

	"github.com/formancehq/numscript/internal/parser"
)

func smallInt(s string) (int, bool) {
	n, err := strconv.ParseInt(s, 10, 64)
	if err != nil || n > math.MaxInt32/4 || n < -math.MaxInt32/4 {
		return 0, false
	}
	return int(n), true
}

// decodeVar turns the text given for a variable into the typed value the specification uses
func decodeVar(typ, text string) (J, bool) {
	switch typ {
	case "account":
		return J{"t": "acct", "v": text}, true
	case "asset":
		return J{"t": "asset", "v": text}, true
	case "string":
		return J{"t": "str", "v": text}, true
	case "number":
		n, ok := smallInt(text)
		return J{"t": "num", "v": n}, ok
	case "monetary":
		parts := strings.Split(text, " ")
		if len(parts) != 2 {
			return nil, false
		}
		n, ok := smallInt(parts[1])
		return J{"t": "mon", "a": parts[0], "v": n}, ok
	case "portion":
		if strings.HasSuffix(text, "%") {
			body := strings.TrimSuffix(text, "%")
			frac := ""
			if i := strings.Index(body, "."); i >= 0 {
				frac = body[i+1:]
				body = body[:i]
			}
			n, ok := smallInt(body + frac)
			d := 100
			for range frac {
				d *= 10
				if d > 100000000 {
					return nil, false
				}
			}
			return J{"t": "portion", "n": n, "d": d}, ok && n <= d
		}
		parts := strings.Split(text, "/")
		if len(parts) != 2 {
			return nil, false
		}
		n, ok1 := smallInt(strings.TrimSpace(parts[0]))
		d, ok2 := smallInt(strings.TrimSpace(parts[1]))
		return J{"t": "portion", "n": n, "d": d}, ok1 && ok2 && d > 0 && n <= d
	}
	return nil, false
}

// vh sem-file <cases.json> <out.ndjson>
func cmdSemFile(args []string) {
	if len(args) != 2 {
		die(2, "usage: vh sem-file <cases.json> <out>")
	}
	b, err := readFile(args[0])
	if err != nil {
		die(2, "%v", err)
	}
	var cases []struct {
		Text    string                       `json:"text"`
		Bal     map[string]map[string]int64  `json:"bal"`
		Vars    map[string]string            `json:"vars"`
		Meta    map[string]map[string]string `json:"meta"`
		FlagOvd bool                         `json:"flagovd"`
	}
	if err := json.Unmarshal(b, &cases); err != nil {
		die(2, "%v", err)
	}
	lw := newLineWriter(args[1])
	written, dropped := 0, 0
	outcomes := map[string]int{}
	for i, cs := range cases {
		c := &Case{ID: i, Corpus: "repo-tests", Text: cs.Text, RawVars: cs.Vars, Bal: cs.Bal, Meta: cs.Meta, FlagOvd: cs.FlagOvd, VarVals: map[string]J{}}
		if c.RawVars == nil {
			c.RawVars = map[string]string{}
		}
		if c.Bal == nil {
			c.Bal = map[string]map[string]int64{}
		}
		if c.Meta == nil {
			c.Meta = map[string]map[string]string{}
		}
		ok := true
		for _, m := range c.Bal {
			for _, v := range m {
				if v > math.MaxInt32/4 || v < -math.MaxInt32/4 {
					ok = false
				}
			}
		}
		func() {
			defer func() {
				if recover() != nil {
					ok = false
				}
			}()
			pr := parser.Parse(cs.Text)
			if len(pr.Errors) > 0 {
				ok = false
				return
			}
			env := map[string]J{}
			for _, d := range pr.Value.Vars {
				if d.Name == nil || d.Type == nil {
					ok = false
					return
				}
				name, typ := d.Name.Name, d.Type.Name
				if d.Origin == nil {
					raw, has := c.RawVars[name]
					if !has {
						c.VarVals[name] = J{"t": "missing"}
						continue
					}
					v, good := decodeVar(typ, raw)
					if !good {
						ok = false
						return
					}
					c.VarVals[name] = v
					env[name] = v
					continue
				}
				if d.Origin.Caller != nil && d.Origin.Caller.Name == "meta" && len(d.Origin.Args) == 2 {
					acc := ""
					switch a := d.Origin.Args[0].(type) {
					case *parser.AccountLiteral:
						acc = a.Name
					case *parser.Variable:
						if v, has := env[a.Name]; has && v["t"] == "acct" {
							acc = v["v"].(string)
						}
					}
					key := ""
					if k, isStr := d.Origin.Args[1].(*parser.StringLiteral); isStr {
						key = k.String
					}
					raw, has := c.Meta[acc][key]
					if !has {
						c.VarVals[name] = J{"t": "missing"}
						continue
					}
					v, good := decodeVar(typ, raw)
					if !good {
						ok = false
						return
					}
					c.VarVals[name] = v
					env[name] = v
					continue
				}
				c.VarVals[name] = J{"t": "none"}
			}
		}()
		if !ok {
			dropped++
			continue
		}
		er := execCase(c)
		if er.dropped != "" {
			dropped++
			continue
		}
		lw.write(er.caseLine)
		for _, e := range er.events {
			lw.write(e)
		}
		lw.write(er.outcome.toJSON())
		outcomes[er.outcome.St]++
		written++
	}
	lw.close()
	printJSON(J{"cases": written, "ndropped": dropped, "dropped": []string{"values outside the trace vocabulary or unparsable"}, "outcomes": outcomes, "distinct_shapes": written, "samples": []any{}, "hooks": hooksPresent, "lines": lw.n})
}

// vh sem-gen <gen.ndjson> <out.ndjson>: replay the members of a SemMC.tla family (printed by TLC) into the real interpreter
func cmdSemGen(args []string) {
	if len(args) != 2 {
		die(2, "usage: vh sem-gen <gen> <out>")
	}
	lw := newLineWriter(args[1])
	written, dropped := 0, 0
	outcomes := map[string]int{}
	shapes := map[string]bool{}
	var samples []any
	readLines(args[0], func(b []byte) {
		var g struct {
			Stmts []any                       `json:"stmts"`
			Bal   map[string]map[string]int64 `json:"bal"`
		}
		if err := json.Unmarshal(b, &g); err != nil {
			die(2, "bad gen line: %v", err)
		}
		normNums(g.Stmts)
		c := &Case{ID: written + dropped, Corpus: "family", Decls: []any{}, Stmts: g.Stmts, VarVals: map[string]J{}, RawVars: map[string]string{}, Bal: g.Bal,
			Meta: map[string]map[string]string{}}
		// the family has no overdraft() origin: the feature flag must change nothing, so it is on for every other member
		c.FlagOvd = (written+dropped)%2 == 1
		c.Text = printProgram(c.Decls, c.Stmts)
		er := execCase(c)
		if er.dropped != "" {
			dropped++
			return
		}
		lw.write(er.caseLine)
		for _, e := range er.events {
			lw.write(e)
		}
		lw.write(er.outcome.toJSON())
		written++
		outcomes[er.outcome.St]++
		if len(er.outcome.Post) >= 2 || er.outcome.St != "ok" {
			shapes[shapeOf(er.caseLine["stmts"])+"|"+er.outcome.St+"|"+strconv.Itoa(len(er.outcome.Post))] = true
		}
		if len(samples) < 2 && len(er.outcome.Post) >= 2 {
			samples = append(samples, J{"text": c.Text, "balances": c.Bal, "postings": postingsToJSON(er.outcome.Post)})
		}
	})
	lw.close()
	printJSON(J{"cases": written, "ndropped": dropped, "dropped": []string{}, "outcomes": outcomes, "distinct_shapes": len(shapes), "samples": samples, "hooks": hooksPresent, "lines": lw.n})
}
