package main

// Abstract syntax shared with the TLA+ specification (spec/Sem.tla): JSON
// objects with a kind field "k".  This file only builds, prints and walks
// such trees; it contains no semantics.

import (
	"fmt"
	"strings"
)

type J = map[string]any

func jl(xs ...any) []any {
	if xs == nil {
		return []any{}
	}
	return xs
}

func eVar(name string) J   { return J{"k": "var", "name": name} }
func eAcct(v string) J     { return J{"k": "acct", "v": v} }
func eAsset(v string) J    { return J{"k": "asset", "v": v} }
func eStr(v string) J      { return J{"k": "str", "v": v} }
func eNum(v int) J         { return J{"k": "num", "v": v} }
func ePortion(n, d int) J  { return J{"k": "portion", "n": n, "d": d} }
func eMon(a, amt J) J      { return J{"k": "mon", "asset": a, "amt": amt} }
func eInfix(op string, l, r J) J {
	return J{"k": "infix", "op": op, "l": l, "r": r}
}
func eRemaining() J { return J{"k": "remaining"} }

// portion literals may carry the original spelling in "txt" (printer uses it)
func printExpr(e J) string {
	switch e["k"] {
	case "var":
		return "$" + e["name"].(string)
	case "acct":
		return "@" + e["v"].(string)
	case "asset":
		return e["v"].(string)
	case "str":
		return `"` + e["v"].(string) + `"`
	case "num":
		if t, ok := e["lex"].(string); ok {
			return t
		}
		return fmt.Sprint(e["v"])
	case "portion":
		if t, ok := e["txt"].(string); ok {
			return t
		}
		return fmt.Sprintf("%v/%v", e["n"], e["d"])
	case "remaining":
		return "remaining"
	case "mon":
		return "[" + printExpr(e["asset"].(J)) + " " + printExpr(e["amt"].(J)) + "]"
	case "infix":
		return printExpr(e["l"].(J)) + " " + e["op"].(string) + " " + printExpr(e["r"].(J))
	}
	panic(fmt.Sprint("printExpr: ", e))
}

func asList(x any) []any {
	switch v := x.(type) {
	case []any:
		return v
	case []J:
		out := make([]any, len(v))
		for i := range v {
			out[i] = v[i]
		}
		return out
	case nil:
		return nil
	}
	panic(fmt.Sprintf("asList: %T", x))
}

func printSource(s J) string {
	switch s["k"] {
	case "acct":
		return printExpr(s["e"].(J))
	case "ovd":
		return printExpr(s["e"].(J)) + " allowing overdraft up to " + printExpr(s["b"].(J))
	case "ovdu":
		return printExpr(s["e"].(J)) + " allowing unbounded overdraft"
	case "seq":
		var parts []string
		for _, x := range asList(s["s"]) {
			parts = append(parts, printSource(x.(J)))
		}
		return "{ " + strings.Join(parts, "\n ") + " }"
	case "cap":
		return "max " + printExpr(s["c"].(J)) + " from " + printSource(s["s"].(J))
	case "allot":
		var parts []string
		for _, x := range asList(s["it"]) {
			it := x.(J)
			parts = append(parts, printExpr(it["p"].(J))+" from "+printSource(it["s"].(J)))
		}
		return "{ " + strings.Join(parts, "\n ") + " }"
	}
	panic(fmt.Sprint("printSource: ", s))
}

func printKod(k J) string {
	if k["k"] == "kept" {
		return "kept"
	}
	return "to " + printDest(k)
}

func printDest(d J) string {
	switch d["k"] {
	case "acct":
		return printExpr(d["e"].(J))
	case "ord":
		var parts []string
		for _, x := range asList(d["cl"]) {
			c := x.(J)
			parts = append(parts, "max "+printExpr(c["c"].(J))+" "+printKod(c["to"].(J)))
		}
		parts = append(parts, "remaining "+printKod(d["rem"].(J)))
		return "{ " + strings.Join(parts, "\n ") + " }"
	case "allot":
		var parts []string
		for _, x := range asList(d["it"]) {
			it := x.(J)
			parts = append(parts, printExpr(it["p"].(J))+" "+printKod(it["to"].(J)))
		}
		return "{ " + strings.Join(parts, "\n ") + " }"
	}
	panic(fmt.Sprint("printDest: ", d))
}

func printSent(st J) string {
	if st["all"].(bool) {
		return "[" + printExpr(st["sent"].(J)) + " *]"
	}
	return printExpr(st["sent"].(J))
}

func printArgs(args []any) string {
	var parts []string
	for _, a := range args {
		parts = append(parts, printExpr(a.(J)))
	}
	return strings.Join(parts, ", ")
}

func printStmt(st J) string {
	switch st["k"] {
	case "send":
		return "send " + printSent(st) + " (\n source = " + printSource(st["src"].(J)) + "\n destination = " + printDest(st["dst"].(J)) + "\n)"
	case "save":
		return "save " + printSent(st) + " from " + printExpr(st["e"].(J))
	case "call":
		return st["name"].(string) + "(" + printArgs(asList(st["args"])) + ")"
	}
	panic(fmt.Sprint("printStmt: ", st))
}

func printDecl(d J) string {
	s := d["type"].(string) + " $" + d["name"].(string)
	o := d["origin"].(J)
	if o["k"] == "call" {
		s += " = " + o["name"].(string) + "(" + printArgs(asList(o["args"])) + ")"
	}
	return s
}

func printProgram(vars []any, stmts []any) string {
	text := ""
	if len(vars) > 0 {
		var decls []string
		for _, v := range vars {
			decls = append(decls, printDecl(v.(J)))
		}
		text = "vars {\n " + strings.Join(decls, "\n ") + "\n}\n"
	}
	var lines []string
	for _, s := range stmts {
		lines = append(lines, printStmt(s.(J)))
	}
	return text + strings.Join(lines, "\n")
}

// the text a typed value is written as when handed over as a variable / metadata
func valText(v J) string {
	switch v["t"] {
	case "num":
		return fmt.Sprint(v["v"])
	case "mon":
		return fmt.Sprintf("%s %v", v["a"], v["v"])
	case "portion":
		if t, ok := v["txt"].(string); ok {
			return t
		}
		return fmt.Sprintf("%v/%v", v["n"], v["d"])
	case "acct", "asset", "str":
		return v["v"].(string)
	case "err": // a deliberately unreadable text: the raw text is carried in "v"
		if t, ok := v["v"].(string); ok {
			return t
		}
	}
	panic(fmt.Sprint("valText: ", v))
}

// structural walk helpers -------------------------------------------------

// every sub-tree (objects) of a JSON tree, pre-order
func walkJ(x any, f func(J)) {
	switch v := x.(type) {
	case J:
		f(v)
		for _, k := range sortedKeys(v) {
			walkJ(v[k], f)
		}
	case []any:
		for _, y := range v {
			walkJ(y, f)
		}
	}
}

func sortedKeys(m J) []string {
	ks := make([]string, 0, len(m))
	for k := range m {
		ks = append(ks, k)
	}
	// insertion sort: tiny maps
	for i := 1; i < len(ks); i++ {
		for j := i; j > 0 && ks[j] < ks[j-1]; j-- {
			ks[j], ks[j-1] = ks[j-1], ks[j]
		}
	}
	return ks
}

// shape signature of a tree: kinds only (used for "distinct non-trivial" counting)
func shapeOf(x any) string {
	switch v := x.(type) {
	case J:
		k, _ := v["k"].(string)
		var sb strings.Builder
		sb.WriteString(k)
		sb.WriteString("(")
		for _, key := range sortedKeys(v) {
			switch v[key].(type) {
			case J, []any:
				sb.WriteString(shapeOf(v[key]))
			}
		}
		sb.WriteString(")")
		return sb.String()
	case []any:
		var sb strings.Builder
		sb.WriteString("[")
		for _, y := range v {
			sb.WriteString(shapeOf(y))
		}
		sb.WriteString("]")
		return sb.String()
	}
	return ""
}
