package main

import "encoding/json"

// replay kinds of the other check families register here
func rerunOther(kind string, raw json.RawMessage) bool {
	return false
}

func jsonUnmarshal(b []byte, v any) error { return json.Unmarshal(b, v) }

func frontReplayOther(kind string, c J) bool {
	switch kind {
	case "diag":
		obs := frontObserve(c["text"].(string), true)
		delete(obs, "nodes")
		delete(obs, "flat")
		c["obs"] = obs
		return true
	case "c17":
		obs := frontObserve(c["text"].(string), true)
		delete(obs, "nodes")
		delete(obs, "flat")
		c["obs"] = obs
		raw, _ := json.Marshal(c)
		cs := caseFromJSON(raw)
		er := execCase(cs)
		run := "dropped"
		if er.dropped == "" {
			run = er.outcome.St
		}
		c["run"] = run
		nerr, ndiag := 0, 0
		for _, d := range asList(obs["diags"]) {
			ndiag++
			if d.([]any)[1] == 1 {
				nerr++
			}
		}
		c["nerr"], c["ndiag"] = nerr, ndiag
		return true
	}
	return false
}
