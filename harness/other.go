package main

import "encoding/json"

// replay kinds of the other check families register here
func rerunOther(kind string, raw json.RawMessage) bool {
	return false
}

func jsonUnmarshal(b []byte, v any) error { return json.Unmarshal(b, v) }

func frontReplayOther(kind string, c J) bool { return false }
