package main

import "encoding/json"

// replay kinds of the other check families register here
func rerunOther(kind string, raw json.RawMessage) bool {
	return false
}
