package main

// C13: portion spellings (TLC-enumerated) through the real parser / interpreter, and the
// metadata round trip of values of every type.

import (
	"context"
	"encoding/json"
	"fmt"
	"math/big"
	"math/rand"
	"strings"

	"github.com/formancehq/numscript"
)

func runSimple(text string, vars map[string]string, meta map[string]map[string]string) (numscript.ExecutionResult, string) {
	var res numscript.ExecutionResult
	st := "ok"
	func() {
		defer func() {
			if r := recover(); r != nil {
				st = "panic"
			}
		}()
		p := numscript.Parse(text)
		if len(p.GetParsingErrors()) > 0 {
			st = "parse-error"
			return
		}
		// the repository's own store (it is what a caller of the library uses)
		r, err := p.Run(context.Background(), vars, numscript.StaticStore{Balances: numscript.Balances{}, Meta: mkMeta(meta)})
		if err != nil {
			st = errClass(err)
			return
		}
		res = r
	}()
	return res, st
}

func ratParts(s string) (int, int, bool) {
	r, ok := new(big.Rat).SetString(s)
	if !ok || !strings.Contains(s, "/") {
		return 0, 0, false
	}
	parts := strings.Split(s, "/")
	a, ok1 := new(big.Int).SetString(parts[0], 10)
	b, ok2 := new(big.Int).SetString(parts[1], 10)
	if !ok1 || !ok2 || !a.IsInt64() || !b.IsInt64() || a.Int64() > 1<<30 || b.Int64() > 1<<30 || a.Int64() < -(1<<30) {
		return 0, 0, false
	}
	_ = r
	return int(a.Int64()), int(b.Int64()), true
}

func metaChannel(text string, vars map[string]string) J {
	res, st := runSimple(text, vars, nil)
	out := J{"st": st, "rn": 0, "rd": 0, "txt": ""}
	if st == "ok" {
		if v, ok := res.Metadata["p"]; ok {
			out["txt"] = v.String()
			if a, b, ok := ratParts(v.String()); ok {
				out["rn"], out["rd"] = a, b
			} else {
				out["st"] = "unreadable-rendering"
			}
		} else {
			out["st"] = "no-metadata"
		}
	}
	return out
}

func splitChannel(text string, vars map[string]string) J {
	res, st := runSimple(text, vars, nil)
	out := J{"st": st, "a": 0, "b": 0}
	if st == "ok" {
		for _, p := range res.Postings {
			if p.Amount.IsInt64() && p.Amount.Int64() < 1<<31 {
				if p.Destination == "a" {
					out["a"] = out["a"].(int) + int(p.Amount.Int64())
				} else if p.Destination == "b" {
					out["b"] = out["b"].(int) + int(p.Amount.Int64())
				}
			}
		}
	}
	return out
}

// vh portion-check <gen.ndjson> <out.ndjson>
func cmdPortionCheck(args []string) {
	if len(args) != 2 {
		die(2, "usage: vh portion-check <gen> <out>")
	}
	lw := newLineWriter(args[1])
	n, nontriv := 0, 0
	var samples []any
	readLines(args[0], func(b []byte) {
		var g struct {
			Lex string `json:"lex"`
			N   int    `json:"n"`
			D   int    `json:"d"`
			ZK  int    `json:"zk"` // replay: the number of extra digits of the long-numeral variants (0 = by rotation)
		}
		if err := json.Unmarshal(b, &g); err != nil {
			die(2, "bad line: %v", err)
		}
		zk := (n/5)%40 + 1
		if g.ZK > 0 {
			zk = g.ZK
		}
		line := J{"e": "portion", "n": n, "lex": g.Lex, "pn": g.N, "pd": g.D, "zk": zk}
		line["litmeta"] = metaChannel(fmt.Sprintf("set_tx_meta(\"p\", %s)", g.Lex), nil)
		line["varmeta"] = metaChannel("vars { portion $p }\nset_tx_meta(\"p\", $p)", map[string]string{"p": g.Lex})
		total := g.D
		line["litsplit"] = splitChannel(fmt.Sprintf("send [COIN %d] (\n source = @world\n destination = { %s to @a\n remaining to @b }\n)", total, g.Lex), nil)
		combo := fmt.Sprintf("vars { portion $p }\nsend [COIN %d] (\n source = @world\n destination = { $p to @a\n remaining to @b }\n)\nset_tx_meta(\"p\", $p)\nsend [COIN %d] (\n source = @world\n destination = { $p to @a\n remaining to @b }\n)", total, total)
		cm := metaChannel(combo, map[string]string{"p": g.Lex})
		cs := splitChannel(combo, map[string]string{"p": g.Lex})
		line["combometa"] = cm
		line["combosplit"] = J{"st": cs["st"], "a": cs["a"], "b": cs["b"]}
		line["varsplit"] = splitChannel(fmt.Sprintf("vars { portion $p }\nsend [COIN %d] (\n source = @world\n destination = { $p to @a\n remaining to @b }\n)", total), map[string]string{"p": g.Lex})
		// long numerals (beyond TLC's integers): the same value spelled with 1 to 40 more digits must render identically (scaling lift)
		long := []any{}
		if n%5 == 0 || g.ZK > 0 {
			// the number of extra digits rotates over 1..40: a table of powers of ten, a machine-word fast path or a fixed buffer
			// is wrong for one particular count of digits only (10^19 and 10^20 do not fit 64 bits)
			zeros := strings.Repeat("0", zk)
			var variants []string
			if i := strings.Index(g.Lex, "/"); i >= 0 {
				num, den := strings.TrimSpace(g.Lex[:i]), strings.TrimSpace(g.Lex[i+1:])
				variants = append(variants, num+zeros+"/"+den+zeros, zeros+num+"/"+zeros+den)
			} else if strings.Contains(g.Lex, ".") {
				variants = append(variants, strings.TrimSuffix(g.Lex, "%")+zeros+"%", zeros+g.Lex)
			} else {
				variants = append(variants, strings.TrimSuffix(g.Lex, "%")+"."+zeros+"%", zeros+g.Lex)
			}
			for _, v := range variants {
				lm := metaChannel(fmt.Sprintf("set_tx_meta(\"p\", %s)", v), nil)
				vm := metaChannel("vars { portion $p }\nset_tx_meta(\"p\", $p)", map[string]string{"p": v})
				long = append(long, J{"lex": v, "lit": lm["txt"], "litst": lm["st"], "var": vm["txt"], "varst": vm["st"]})
			}
		}
		line["long"] = long
		lw.write(line)
		if strings.HasPrefix(g.Lex, "0") || strings.Contains(g.Lex, "/0") || strings.Contains(g.Lex, ".0") || strings.Contains(g.Lex, " ") {
			nontriv++ // leading zeros or spaces: the spellings examples never contain
			if len(samples) < 4 && n%97 == 0 {
				samples = append(samples, line)
			}
		}
		n++
	})
	lw.close()
	printJSON(J{"cases": n, "nontrivial": nontriv, "samples": samples})
}

// ---- round trip ---------------------------------------------------------------

type rtValue struct {
	typ, text string
	canon     bool
}

func rtValues(r *rand.Rand, n int) []rtValue {
	big1 := "340282366920938463463374607431768211456" // 2^128
	vals := []rtValue{
		{"account", "a", true}, {"account", "users:001", true}, {"account", "a-b_c:x9", true}, {"account", "world", true},
		{"asset", "USD", true}, {"asset", "EUR/2", true}, {"asset", "X/0", true}, {"asset", "9", true},
		{"string", "", true}, {"string", "hello world", true}, {"string", "é ü 漢", true}, {"string", `q"uo\te`, true}, {"string", " lead and trail ", true}, {"string", "1/2", true}, {"string", "USD 5", true},
		{"number", "0", true}, {"number", "-5", true}, {"number", "42", true}, {"number", big1, true}, {"number", "-" + big1, true}, {"number", "18446744073709551616", true}, {"number", "9223372036854775808", true}, {"number", "18446744073709551615", true}, {"number", "9223372036854775807", true}, {"number", "-9223372036854775809", true},
		{"monetary", "USD 18446744073709551615", true}, {"monetary", "USD 9223372036854775808", true},
		{"monetary", "USD 5", true}, {"monetary", "EUR/2 -7", true}, {"monetary", "COIN " + big1, true}, {"monetary", "USD 0", true}, {"monetary", "X/0 -" + big1, true},
		{"portion", "1/3", true}, {"portion", "0/1", true}, {"portion", "1/1", true}, {"portion", "7/8", true}, {"portion", "1/1000000007", true},
		{"portion", "50%", false}, {"portion", "12.5%", false}, {"portion", "2/4", false}, {"portion", "100%", false}, {"portion", "0%", false},
		{"number", "+7", false}, {"number", "-0", false}, {"number", "007", false},
	}
	digits := func(k int) string {
		s := ""
		for i := 0; i < k; i++ {
			d := r.Intn(10)
			if i == 0 && d == 0 {
				d = 1
			}
			s += fmt.Sprint(d)
		}
		return s
	}
	for len(vals) < n {
		switch r.Intn(5) {
		case 0:
			sign := ""
			if r.Intn(2) == 0 {
				sign = "-"
			}
			vals = append(vals, rtValue{"number", sign + digits(1+r.Intn(60)), true})
		case 1:
			sign := ""
			if r.Intn(2) == 0 {
				sign = "-"
			}
			vals = append(vals, rtValue{"monetary", pick(r, []string{"USD", "EUR/2", "A/B/1"}) + " " + sign + digits(1+r.Intn(50)), true})
		case 2:
			d := new(big.Int)
			d.SetString(digits(1+r.Intn(30)), 10)
			nn := new(big.Int).Rand(r, d)
			rat := new(big.Rat).SetFrac(nn, d)
			vals = append(vals, rtValue{"portion", rat.String(), true})
		case 3:
			alphabet := []rune("abc XYZ09:/-_é漢\"\\%$@")
			k := r.Intn(12)
			s := make([]rune, k)
			for i := range s {
				s[i] = alphabet[r.Intn(len(alphabet))]
			}
			vals = append(vals, rtValue{"string", string(s), true})
		default:
			seg := func() string {
				al := "abcXYZ019_-"
				k := 1 + r.Intn(5)
				s := ""
				for i := 0; i < k; i++ {
					s += string(al[r.Intn(len(al))])
				}
				return s
			}
			a := seg()
			for i := r.Intn(3); i > 0; i-- {
				a += ":" + seg()
			}
			vals = append(vals, rtValue{"account", a, true})
		}
	}
	return vals
}

func jsonText(v any) string {
	b, err := json.Marshal(v)
	if err != nil {
		return "<marshal-error>"
	}
	var s string
	if err := json.Unmarshal(b, &s); err != nil {
		return "<not-a-json-string:" + string(b) + ">"
	}
	return s
}

// vh rt-check <seed> <n> <out.ndjson>
func cmdRtCheck(args []string) {
	if len(args) != 3 {
		die(2, "usage: vh rt-check <seed> <n> <out>")
	}
	seed, n := argInt(args[0]), argInt(args[1])
	r := rand.New(rand.NewSource(int64(seed)*48271 + 3))
	lw := newLineWriter(args[2])
	cnt, nontriv := 0, 0
	var samples []any
	rtRun(lw, rtValues(r, n), &cnt, &nontriv, &samples)
	lw.close()
	printJSON(J{"cases": cnt, "nontrivial": nontriv, "samples": samples})
}

// vh rt-one <in.ndjson> <out.ndjson>: round trip of the values listed in a file
func cmdRtOne(args []string) {
	if len(args) != 2 {
		die(2, "usage: vh rt-one <in> <out>")
	}
	var vals []rtValue
	readLines(args[0], func(b []byte) {
		var x struct {
			Type  string `json:"type"`
			Text  string `json:"text"`
			Canon bool   `json:"canon"`
		}
		if err := json.Unmarshal(b, &x); err != nil {
			die(2, "%v", err)
		}
		vals = append(vals, rtValue{x.Type, x.Text, x.Canon})
	})
	lw := newLineWriter(args[1])
	cnt, nontriv := 0, 0
	var samples []any
	rtRun(lw, vals, &cnt, &nontriv, &samples)
	lw.close()
	printJSON(J{"cases": cnt})
}

func rtRun(lw *lineWriter, vals []rtValue, pcnt *int, pnontriv *int, psamples *[]any) {
	cnt, nontriv := *pcnt, *pnontriv
	samples := *psamples
	defer func() { *pcnt, *pnontriv, *psamples = cnt, nontriv, samples }()
	for _, v := range vals {
		// (both keys are first written with a placeholder: the value written last is the one that stays)
		s1 := fmt.Sprintf("vars { %s $v }\nset_account_meta(@m, \"k\", \"before\")\nset_tx_meta(\"k\", \"before\")\nset_account_meta(@m, \"k\", $v)\nset_tx_meta(\"k\", $v)", v.typ)
		res1, st1 := runSimple(s1, map[string]string{"v": v.text}, nil)
		line := J{"e": "rt", "n": cnt, "type": v.typ, "text": v.text, "canon": v.canon, "st1": st1, "st2": "", "st3": "",
			"am1": "", "tx1": "", "txj1": "", "am2": "", "tx2": "", "am3": "", "tx3": ""}
		if st1 == "ok" {
			am1 := res1.AccountsMetadata["m"]["k"]
			line["am1"] = am1
			if x, ok := res1.Metadata["k"]; ok {
				line["tx1"] = x.String()
				line["txj1"] = jsonText(x)
			}
			// run 2: read it back through a metadata-backed variable of the same type
			// (next to other metadata-backed variables on the same account, before and after it)
			s2 := fmt.Sprintf("vars { string $w = meta(@m, \"other\")\n %s $x = meta(@m, \"k\")\n string $z = meta(@m, \"last\") }\nset_account_meta(@m, \"k2\", $x)\nset_tx_meta(\"k\", $x)\nset_tx_meta(\"w\", $w)\nset_tx_meta(\"z\", $z)", v.typ)
			res2, st2 := runSimple(s2, nil, map[string]map[string]string{"m": {"other": "o", "k": am1, "last": "l"}})
			line["st2"] = st2
			if st2 == "ok" {
				line["am2"] = res2.AccountsMetadata["m"]["k2"]
				if x, ok := res2.Metadata["k"]; ok {
					line["tx2"] = x.String()
				}
			}
			// run 3: the same text passed as a plain variable
			res3, st3 := runSimple(s1, map[string]string{"v": am1}, nil)
			line["st3"] = st3
			if st3 == "ok" {
				line["am3"] = res3.AccountsMetadata["m"]["k"]
				if x, ok := res3.Metadata["k"]; ok {
					line["tx3"] = x.String()
				}
			}
		}
		// siblings: DIFFERENT values of the same type (blanks around a string, one more character / digit elsewhere); a value
		// that is stored as the text of another value cannot be read back as itself
		sibs := []string{}
		switch v.typ {
		case "string":
			sibs = []string{" " + v.text, v.text + " ", "\t" + v.text, v.text + "\n", "  " + v.text + "  "}
		case "account":
			sibs = []string{v.text + "x", v.text + ":x"}
		case "asset":
			sibs = []string{v.text + "0"}
		case "number", "monetary":
			sibs = []string{v.text + "1"}
		}
		sibam := []any{}
		if st1 == "ok" {
			for _, sb := range sibs {
				rs, sts := runSimple(s1, map[string]string{"v": sb}, nil)
				if sts == "ok" {
					sibam = append(sibam, rs.AccountsMetadata["m"]["k"])
				}
			}
		}
		line["sibam"] = sibam
		lw.write(line)
		if len(v.text) > 19 || strings.ContainsAny(v.text, "é漢\"\\% ") {
			nontriv++
		}
		if len(samples) < 3 && cnt%11 == 3 {
			samples = append(samples, line)
		}
		cnt++
	}
}
