package main

import (
	"bufio"
	"encoding/json"
	"fmt"
	"math/rand"
	"os"
	"sort"
	"strconv"
)

func die(code int, format string, a ...any) {
	fmt.Fprintf(os.Stderr, format+"\n", a...)
	os.Exit(code)
}

type lineWriter struct {
	f *os.File
	w *bufio.Writer
	n int
}

func newLineWriter(path string) *lineWriter {
	f, err := os.Create(path)
	if err != nil {
		die(2, "create %s: %v", path, err)
	}
	return &lineWriter{f: f, w: bufio.NewWriterSize(f, 1<<20)}
}
func (lw *lineWriter) write(v any) {
	b, err := json.Marshal(v)
	if err != nil {
		die(2, "marshal: %v", err)
	}
	lw.w.Write(b)
	lw.w.WriteByte('\n')
	lw.n++
}
func (lw *lineWriter) close() { lw.w.Flush(); lw.f.Close() }

func readFile(p string) ([]byte, error) { return os.ReadFile(p) }

func argInt(s string) int {
	n, err := strconv.Atoi(s)
	if err != nil {
		die(2, "bad integer %q", s)
	}
	return n
}

func printJSON(v any) {
	b, _ := json.Marshal(v)
	fmt.Println(string(b))
}

func topN(m map[string]int, n int) []string {
	ks := make([]string, 0, len(m))
	for k := range m {
		ks = append(ks, k)
	}
	sort.Slice(ks, func(i, j int) bool { return m[ks[i]] > m[ks[j]] || (m[ks[i]] == m[ks[j]] && ks[i] < ks[j]) })
	if len(ks) > n {
		ks = ks[:n]
	}
	out := []string{}
	for _, k := range ks {
		out = append(out, fmt.Sprintf("%s x%d", k, m[k]))
	}
	return out
}

// vh sem <corpus> <seed> <n> <out.ndjson>
func cmdSem(args []string) {
	if len(args) != 4 {
		die(2, "usage: vh sem <corpus> <seed> <n> <out>")
	}
	var cfg genCfg
	if args[0] != "allot" && args[0] != "illtyped" {
		cfg = corpusCfg(args[0])
	}
	seed, n := argInt(args[1]), argInt(args[2])
	r := rand.New(rand.NewSource(int64(seed)*7919 + int64(len(args[0]))))
	lw := newLineWriter(args[3])
	dropped := map[string]int{}
	outcomes := map[string]int{}
	shapes := map[string]bool{}
	written := 0
	var samples []any
	for i := 0; i < n; i++ {
		var c *Case
		if args[0] == "allot" {
			c = genAllotCase(r, i)
		} else if args[0] == "illtyped" {
			c = genIllCase(r, i)
		} else {
			c = genCase(r, cfg, i)
		}
		er := execCase(c)
		if er.dropped != "" {
			dropped[er.dropped]++
			continue
		}
		lw.write(er.caseLine)
		for _, e := range er.events {
			lw.write(e)
		}
		lw.write(er.outcome.toJSON())
		written++
		outcomes[er.outcome.St]++
		if len(er.outcome.Post) >= 2 || (er.outcome.St != "ok" && len(er.events) > 0) {
			// non-trivial: at least two postings, or a failure raised while executing statements;
			// distinct by statement shape x outcome class x number of postings
			shapes[shapeOf(er.caseLine["stmts"])+"|"+er.outcome.St+"|"+fmt.Sprint(len(er.outcome.Post))] = true
		}
		if len(samples) < 3 && er.outcome.St == "ok" && len(er.outcome.Post) > 1 {
			samples = append(samples, J{"text": c.Text, "balances": c.Bal, "vars": c.RawVars, "postings": postingsToJSON(er.outcome.Post)})
		}
	}
	lw.close()
	printJSON(J{"cases": written, "lines": lw.n, "dropped": topN(dropped, 5), "ndropped": n - written, "outcomes": outcomes,
		"distinct_shapes": len(shapes), "samples": samples, "hooks": hooksPresent})
}

// vh rerun <replay.json> : re-execute the case of a replay file in a fresh process and print what is observed
func cmdRerun(args []string) {
	if len(args) != 1 {
		die(2, "usage: vh rerun <replay.json>")
	}
	b, err := os.ReadFile(args[0])
	if err != nil {
		die(2, "%v", err)
	}
	var rp struct {
		Kind string `json:"kind"`
		Case json.RawMessage `json:"case"`
	}
	if err := json.Unmarshal(b, &rp); err != nil {
		die(2, "%v", err)
	}
	switch rp.Kind {
	case "sem":
		c := caseFromJSON(rp.Case)
		er := execCase(c)
		if er.dropped != "" {
			die(2, "case cannot be executed: %s", er.dropped)
		}
		lines := []any{er.caseLine}
		for _, e := range er.events {
			lines = append(lines, e)
		}
		lines = append(lines, er.outcome.toJSON())
		printJSON(J{"lines": lines})
	default:
		if !rerunOther(rp.Kind, rp.Case) {
			die(2, "unknown replay kind %q", rp.Kind)
		}
	}
}

func caseFromJSON(raw json.RawMessage) *Case {
	var cl struct {
		ID      int                         `json:"id"`
		Corpus  string                      `json:"corpus"`
		Text    string                      `json:"text"`
		RawVars map[string]string           `json:"rawvars"`
		Bal     map[string]map[string]int64 `json:"bal"`
		Meta    map[string]map[string]string `json:"meta"`
		FlagOvd bool                        `json:"flagovd"`
		VarVals map[string]J                `json:"varvals"`
	}
	if err := json.Unmarshal(raw, &cl); err != nil {
		die(2, "bad case: %v", err)
	}
	for _, v := range cl.VarVals {
		normNums(v)
	}
	return &Case{ID: cl.ID, Corpus: cl.Corpus, Text: cl.Text, RawVars: cl.RawVars, Bal: cl.Bal, Meta: cl.Meta, FlagOvd: cl.FlagOvd, VarVals: cl.VarVals}
}

// JSON numbers come back as float64: turn integral ones into ints again
func normNums(x any) {
	switch v := x.(type) {
	case J:
		for k, y := range v {
			if f, ok := y.(float64); ok && f == float64(int(f)) {
				v[k] = int(f)
			} else {
				normNums(y)
			}
		}
	case []any:
		for i, y := range v {
			if f, ok := y.(float64); ok && f == float64(int(f)) {
				v[i] = int(f)
			} else {
				normNums(y)
			}
		}
	}
}

func main() {
	if len(os.Args) < 2 {
		die(2, "usage: vh <command> ...")
	}
	switch os.Args[1] {
	case "sem":
		cmdSem(os.Args[2:])
	case "rerun":
		cmdRerun(os.Args[2:])
	case "rec":
		cmdRec(os.Args[2:])
	case "split":
		cmdSplit(os.Args[2:])
	case "store-gen":
		cmdStoreGen(os.Args[2:])
	case "store-rand":
		cmdStoreRand(os.Args[2:])
	case "syn-trees":
		cmdSynTrees(os.Args[2:])
	case "syn-check":
		cmdSynCheck(os.Args[2:])
	case "lex-check":
		cmdLexCheck(os.Args[2:])
	case "wire-check":
		cmdWireCheck(os.Args[2:])
	case "front-replay":
		cmdFrontReplay(os.Args[2:])
	case "portion-check":
		cmdPortionCheck(os.Args[2:])
	case "rt-one":
		cmdRtOne(os.Args[2:])
	case "rt-check":
		cmdRtCheck(os.Args[2:])
	case "chk-trees":
		cmdChkTrees(os.Args[2:])
	case "chk-check":
		cmdChkCheck(os.Args[2:])
	case "c17-check":
		cmdC17Check(os.Args[2:])
	case "edit-check":
		cmdEditCheck(os.Args[2:])
	case "lsp-check":
		cmdLspCheck(os.Args[2:])
	case "nav-check":
		cmdNavCheck(os.Args[2:])
	case "cli-check":
		cmdCliCheck(os.Args[2:])
	case "allot-scale":
		cmdAllotScale(os.Args[2:])
	case "soups":
		cmdSoups(os.Args[2:])
	case "size-docs":
		cmdSizeDocs(os.Args[2:])
	case "scale-sem":
		cmdScaleSem(os.Args[2:])
	case "sem-file":
		cmdSemFile(os.Args[2:])
	case "sem-gen":
		cmdSemGen(os.Args[2:])
	case "conc":
		cmdConc(os.Args[2:])
	case "store-replay":
		cmdStoreReplay(os.Args[2:])
	default:
		die(2, "unknown command %s", os.Args[1])
	}
}
