package main

// Grammar-complete generator of script trees for the front-end checks: every
// alternative of every rule of Numscript.g4, typed or not (the parser does not care).

import (
	"bufio"
	"encoding/json"
	"fmt"
	"math/rand"
	"os"
	"strings"
)

type synGen struct {
	r     *rand.Rand
	names []string // declared variable names
	typed bool     // build well-typed expressions (for the checker corpora)
}

var synAccts = []string{"a", "b", "world", "users:001", "a-b_c", "Bank:fees:2024", "x"}
var synAssets = []string{"USD", "EUR/2", "COIN", "BTC/8", "X", "USD/02", "JPY/010", "A/B/1", "/2", "USD/", "1INCH/18", "EUR/USD"}
var synStrs = []string{"k", "hello world", "rent, march", "x,y", ",", "^", `q\"uote`, "", "a/b:c", "^^", `say \"hi\"`, `\"`, `tab\there`}
var synPortions = []string{"1/2", "1 / 3", "2/ 3", "1 /4", "50%", "12.5%", "100%", "0%", "3/4", "99.99%", "1/1", "10/20", "08/10", "007/010", "09%", "0.090%", "1/09"}
var synTypes = []string{"account", "asset", "number", "monetary", "portion", "string"}
var synVarNames = []string{"a", "my_var", "x2", "amount_1", "p", "s", "acc", "m"}

func (g *synGen) value(d int) J {
	r := g.r
	switch k := r.Intn(10); {
	case k == 0 && len(g.names) > 0:
		return eVar(pick(r, g.names))
	case k == 1:
		return eAsset(pick(r, synAssets))
	case k == 2:
		return eStr(pick(r, synStrs))
	case k == 3:
		return eAcct(pick(r, synAccts))
	case k == 4:
		if r.Intn(4) == 0 { // spelled with leading zeros: still base ten
			return J{"k": "num", "lex": pick(r, []string{"010", "007", "-010", "0100", "00", "019", "08"})}
		}
		return eNum(pick(r, []int{0, 1, -1, 42, -300, 1000000}))
	case k == 5 && d > 0:
		return eMon(g.value(d-1), g.value(d-1))
	case k == 6:
		return J{"k": "portion", "lex": pick(r, synPortions)}
	case k == 7 && d > 0:
		// left-associative chain
		n := 1 + r.Intn(3)
		e := g.operand(d - 1)
		for i := 0; i < n; i++ {
			e = eInfix(pick(r, []string{"+", "-"}), e, g.operand(d-1))
		}
		return e
	}
	return eAcct(pick(r, synAccts))
}

// operand of an infix chain: anything but an infix
func (g *synGen) operand(d int) J {
	for {
		e := g.value(d)
		if e["k"] != "infix" {
			return e
		}
	}
}

func (g *synGen) allotVal() J {
	r := g.r
	switch r.Intn(4) {
	case 0:
		if len(g.names) > 0 {
			return eVar(pick(r, g.names))
		}
	case 1:
		return eRemaining()
	}
	return J{"k": "portion", "lex": pick(r, synPortions)}
}

func (g *synGen) source(d int) J {
	r := g.r
	switch k := r.Intn(8); {
	case k == 0:
		return J{"k": "ovdu", "e": g.value(1)}
	case k == 1:
		return J{"k": "ovd", "e": g.value(1), "b": g.value(2)}
	case k == 2 && d > 0:
		n := r.Intn(4)
		s := []any{}
		for i := 0; i < n; i++ {
			x := g.source(d - 1)
			// `{ $v ...` / `{ 1/2 ...` followed by `from` would read as an allotment: keep inorder members unambiguous
			s = append(s, x)
		}
		return J{"k": "seq", "s": s}
	case k == 3 && d > 0:
		n := 1 + r.Intn(3)
		it := []any{}
		for i := 0; i < n; i++ {
			it = append(it, J{"p": g.allotVal(), "s": g.source(d - 1)})
		}
		return J{"k": "allot", "it": it}
	case k == 4 && d > 0:
		return J{"k": "cap", "c": g.value(2), "s": g.source(d - 1)}
	}
	return J{"k": "acct", "e": g.value(1)}
}

func (g *synGen) kod(d int) J {
	if g.r.Intn(3) == 0 {
		return J{"k": "kept"}
	}
	return g.dest(d)
}

func (g *synGen) dest(d int) J {
	r := g.r
	switch k := r.Intn(6); {
	case k == 0 && d > 0:
		n := 1 + r.Intn(3)
		it := []any{}
		for i := 0; i < n; i++ {
			it = append(it, J{"p": g.allotVal(), "to": g.kod(d - 1)})
		}
		return J{"k": "allot", "it": it}
	case k <= 2 && d > 0:
		// at least one clause: `{ remaining ... }` alone is read by the grammar as an allotment
		n := 1 + r.Intn(3)
		cl := []any{}
		for i := 0; i < n; i++ {
			cl = append(cl, J{"c": g.value(2), "to": g.kod(d - 1)})
		}
		return J{"k": "ord", "cl": cl, "rem": g.kod(d - 1)}
	}
	return J{"k": "acct", "e": g.value(1)}
}

func (g *synGen) call(stmt bool) J {
	r := g.r
	name := pick(r, []string{"set_tx_meta", "set_account_meta", "meta", "balance", "overdraft", "foo", "a_b", "f", "b"})
	n := r.Intn(6)
	args := []any{}
	for i := 0; i < n; i++ {
		args = append(args, g.value(2))
	}
	return J{"k": "call", "name": name, "args": args}
}

func (g *synGen) stmt() J {
	r := g.r
	switch r.Intn(5) {
	case 0:
		return g.call(true)
	case 1:
		all := r.Intn(2) == 0
		return J{"k": "save", "all": all, "sent": g.value(2), "e": g.value(1)}
	}
	all := r.Intn(3) == 0
	return J{"k": "send", "all": all, "sent": g.value(2), "src": g.source(2), "dst": g.dest(2)}
}

func genSynTree(r *rand.Rand, id int, maxStmts int) J {
	g := &synGen{r: r}
	vars := []any{}
	emptyVars := false
	if r.Intn(3) != 0 {
		nv := r.Intn(4)
		if nv == 0 {
			emptyVars = true
		}
		perm := r.Perm(len(synVarNames))
		for i := 0; i < nv; i++ {
			name := synVarNames[perm[i]]
			o := J{"k": "none"}
			if r.Intn(3) == 0 {
				c := g.call(false)
				o = J{"k": "call", "name": c["name"], "args": c["args"]}
			}
			vars = append(vars, J{"type": pick(r, append(synTypes, "thing", "t")), "name": name, "origin": o})
			g.names = append(g.names, name)
		}
		if r.Intn(4) == 0 {
			g.names = append(g.names, "undeclared")
		}
	}
	ns := r.Intn(maxStmts + 1)
	stmts := []any{}
	for i := 0; i < ns; i++ {
		stmts = append(stmts, g.stmt())
	}
	return J{"id": id, "vars": vars, "stmts": stmts, "emptyvars": emptyVars}
}

// an inorder source whose first member starts like an allotment clause is ambiguous for a reader but
// not for the grammar; nothing to filter.  A percent / ratio literal or variable directly followed by
// the keyword `from` only occurs in allotments, which is what the generator builds.

// vh syn-trees <seed> <n> <maxstmts> <out.ndjson>
func cmdSynTrees(args []string) {
	if len(args) != 4 {
		die(2, "usage: vh syn-trees <seed> <n> <maxstmts> <out>")
	}
	seed, n, ms := argInt(args[0]), argInt(args[1]), argInt(args[2])
	r := rand.New(rand.NewSource(int64(seed)*2654435761 + 11))
	lw := newLineWriter(args[3])
	// a few fixed showcase trees first (non-ASCII strings at the end of a call, unbounded sources in a list, origins), then random ones
	fixed := []J{
		{"id": 0, "emptyvars": false, "vars": []any{}, "stmts": []any{J{"k": "call", "name": "set_tx_meta", "args": jl(eStr("cl^"), eStr("^"))}}},
		{"id": 1, "emptyvars": false, "vars": []any{J{"type": "monetary", "name": "m", "origin": J{"k": "call", "name": "balance", "args": jl(eAcct("a"), eAsset("USD"))}}, J{"type": "account", "name": "acc", "origin": J{"k": "none"}}},
			"stmts": []any{J{"k": "send", "all": false, "sent": eVar("m"), "src": J{"k": "seq", "s": []any{J{"k": "acct", "e": eAcct("world")}, J{"k": "ovdu", "e": eVar("acc")}, J{"k": "ovd", "e": eAcct("b"), "b": eMon(eAsset("USD"), eNum(5))}}},
				"dst": J{"k": "ord", "cl": []any{J{"c": eVar("m"), "to": J{"k": "kept"}}}, "rem": J{"k": "acct", "e": eVar("acc")}}}}},
		{"id": 2, "emptyvars": false, "vars": []any{}, "stmts": []any{J{"k": "call", "name": "set_account_meta", "args": jl(eAcct("a"), eStr("cl^"), eStr("^^"))}, J{"k": "save", "all": true, "sent": eAsset("USD"), "e": eAcct("a")}}},
		// a string whose last character is a backslash (the lexer closes it there when no other quote follows on the line)
		{"id": 3, "emptyvars": false, "vars": []any{}, "stmts": []any{J{"k": "call", "name": "set_tx_meta", "args": jl(eStr("k"), eStr(`C:\tmp\`))}}},
		// a send-all whose source is @world with a bound (rejected by the checker, but it parses; its prefixes and
		// single-token deletions leave the bound half written)
		{"id": 4, "emptyvars": false, "vars": []any{}, "stmts": []any{J{"k": "send", "all": true, "sent": eAsset("USD"),
			"src": J{"k": "seq", "s": []any{J{"k": "ovd", "e": eAcct("world"), "b": eMon(eAsset("USD"), eNum(5))}, J{"k": "acct", "e": eAcct("a")}}}, "dst": J{"k": "acct", "e": eAcct("x")}},
			J{"k": "send", "all": true, "sent": eAsset("USD"), "src": J{"k": "ovd", "e": eAcct("world"), "b": eMon(eAsset("USD"), eNum(5))}, "dst": J{"k": "acct", "e": eAcct("x")}}}},
		// many capped sources in one statement (whatever is counted per statement while parsing must be given back)
		{"id": 5, "emptyvars": false, "vars": []any{}, "stmts": []any{J{"k": "send", "all": false, "sent": eMon(eAsset("USD"), eNum(5)),
			"src": J{"k": "seq", "s": func() []any {
				xs := []any{}
				for i := 0; i < 34; i++ {
					xs = append(xs, J{"k": "cap", "c": eMon(eAsset("USD"), eNum(i)), "s": J{"k": "acct", "e": eAcct(fmt.Sprintf("v:%d", i))}})
				}
				xs = append(xs, J{"k": "seq", "s": []any{J{"k": "acct", "e": eAcct("last")}}})
				return xs
			}()}, "dst": J{"k": "ord", "cl": []any{J{"c": eMon(eAsset("USD"), eNum(1)), "to": J{"k": "acct", "e": eAcct("x")}}}, "rem": J{"k": "kept"}}}}},
		// ratio parts around 2^63 and 2^64 (19 and 20 digits)
		{"id": 6, "emptyvars": false, "vars": []any{}, "stmts": []any{
			J{"k": "call", "name": "set_tx_meta", "args": jl(eStr("k"), J{"k": "portion", "lex": "1/9223372036854775808"})},
			// the two ends of the platform integer, as number literals
			J{"k": "call", "name": "set_tx_meta", "args": jl(eStr("k"), J{"k": "num", "lex": "-9223372036854775808"})},
			J{"k": "call", "name": "set_tx_meta", "args": jl(eStr("k"), J{"k": "num", "lex": "9223372036854775807"})},
			J{"k": "call", "name": "set_tx_meta", "args": jl(eStr("k"), J{"k": "portion", "lex": "9223372036854775809 / 18446744073709551616"})},
			J{"k": "call", "name": "set_tx_meta", "args": jl(eStr("k"), J{"k": "portion", "lex": "0009223372036854775807/9999999999999999999"})}}},
	}
	for i := 0; i < n; i++ {
		if i < len(fixed) && n > len(fixed) {
			// (the long statement of tree 5 only where trees are printed under a few layouts, not where every edit of
			// every token is enumerated)
			if i == 5 && n < 50 {
				lw.write(genSynTree(r, i, ms))
				continue
			}
			lw.write(fixed[i])
			continue
		}
		lw.write(genSynTree(r, i, ms))
	}
	lw.close()
	printJSON(J{"trees": n})
}

// widen replaces the ASCII placeholder ^ (texts inside TLC are ASCII only) by a wider character of the same length
// in code points (variant 0: Latin-1, 1: Cyrillic, 2: CJK, 3: outside the Basic Multilingual Plane)
func widen(s string, variant int) string {
	switch variant % 4 {
	case 1:
		return strings.ReplaceAll(s, "^", "к")
	case 2:
		return strings.ReplaceAll(s, "^", "漢")
	case 3:
		return strings.ReplaceAll(s, "^", "😀")
	}
	return strings.ReplaceAll(s, "^", "é")
}

type synGenLine struct {
	ID    int     `json:"id"`
	Text  string  `json:"text"`
	Mode  J       `json:"mode"`
	Nodes [][]any `json:"nodes"`
	Flat  []any   `json:"flat"`
}

// vh syn-check <gen.ndjson> <out.ndjson>: parse the texts printed by Syntax.tla with the real parser
func cmdSynCheck(args []string) {
	if len(args) != 2 {
		die(2, "usage: vh syn-check <gen> <out>")
	}
	f, err := os.Open(args[0])
	if err != nil {
		die(2, "%v", err)
	}
	defer f.Close()
	sc := bufio.NewScanner(f)
	sc.Buffer(make([]byte, 1<<20), 1<<27)
	lw := newLineWriter(args[1])
	n, nontriv := 0, 0
	kinds := map[string]bool{}
	var samples []any
	for sc.Scan() {
		if len(sc.Bytes()) == 0 {
			continue
		}
		var g synGenLine
		if err := json.Unmarshal(sc.Bytes(), &g); err != nil {
			die(2, "bad gen line: %v", err)
		}
		g.Text = widen(g.Text, n)
		for i, x := range g.Flat {
			if xs, ok := x.(string); ok {
				g.Flat[i] = widen(xs, n)
			}
		}
		obs := frontObserve(g.Text, false)
		exp := make([]any, len(g.Nodes))
		for i, nd := range g.Nodes {
			normNums(nd)
			exp[i] = nd
			kinds[fmt.Sprint(nd[0])] = true
		}
		lw.write(J{"e": "syn", "id": g.ID, "n": n, "text": g.Text, "expnodes": exp, "expflat": g.Flat, "obs": obs})
		if len(g.Nodes) >= 10 {
			nontriv++
			if len(samples) < 2 {
				samples = append(samples, J{"text": g.Text, "layout": g.Mode, "nodes_with_spans": len(g.Nodes)})
			}
		}
		n++
	}
	lw.close()
	printJSON(J{"cases": n, "nontrivial": nontriv, "node_kinds": len(kinds), "samples": samples})
}


// ---- token soups (C14 / C18): random sequences over the token alphabet, no validity claim -------------

var soupAlphabet = []string{"{", "}", "(", ")", "[", "]", "=", "*", ",", "send", "max", "remaining", "kept", "to", "from", "@x", "@a:b", "$v", "$w", "USD", "EUR/2", "5", "-3",
	"1/2", "50%", "\"s\"", "-", "+", "vars", "source", "destination", "allowing", "unbounded", "overdraft", "up", "save", "set_tx_meta", "set_account_meta", "balance", "meta",
	"account", "monetary", "portion", "number", "é", "#", "\"open", "$", "@", "1/", "/* c */", "// c\n", "%", "1/0", "0/0"}

// vh soups <seed> <n> <out.ndjson>: documents in the format Edit.tla prints (text, line table, lexok=false)
func cmdSoups(args []string) {
	if len(args) != 3 {
		die(2, "usage: vh soups <seed> <n> <out>")
	}
	seed, n := argInt(args[0]), argInt(args[1])
	r := rand.New(rand.NewSource(int64(seed)*99991 + 7))
	lw := newLineWriter(args[2])
	starts := [][]string{{}, {"send", "[", "USD", "5", "]", "(", "source", "="}, {"vars", "{", "account", "$v"}, {"set_tx_meta", "("}, {"send", "[", "USD", "*", "]", "(", "source", "=", "@a", "destination", "=", "{"}}
	starts = append(starts, []string{"send", "[", "USD", "5", "]", "(", "source", "=", "{", "@world"}, []string{"send", "[", "USD", "5", "]", "(", "source", "=", "{", "@a", "allowing", "unbounded", "overdraft"},
		[]string{"send", "[", "USD", "5", "]", "(", "source", "=", "{", "50%", "from", "@a", "50.00000000000000000001%", "from", "@b", "}"},
		[]string{"send", "[", "USD", "5", "]", "(", "source", "=", "@a", "destination", "=", "{", "99.99999999999999999%", "to", "@a", "}", ")"})
	special := func(i int) []string {
		switch i {
		case 0, 1: // a long chain of + / - (analysis must stay linear)
			t := []string{"vars", "{", "number", "$n", "}", "set_tx_meta", "(", "\"total\"", ",", "$n"}
			for j := 0; j < 40+20*i; j++ {
				t = append(t, pick(r, []string{"+", "-"}), pick(r, []string{"1", "$n"}))
			}
			return append(t, ")")
		case 2: // deep nesting
			t := []string{"send", "[", "USD", "5", "]", "(", "source", "="}
			for j := 0; j < 150; j++ {
				t = append(t, "{")
			}
			t = append(t, "@a")
			for j := 0; j < 150; j++ {
				t = append(t, "}")
			}
			return append(t, "destination", "=", "@b", ")")
		case 3: // a long monetary chain in a cap
			t := []string{"send", "[", "USD", "5", "]", "(", "source", "=", "max", "[", "USD", "1", "]"}
			for j := 0; j < 35; j++ {
				t = append(t, "+", "[", "USD", "1", "]")
			}
			return append(t, "from", "@a", "destination", "=", "@b", ")")
		}
		return nil
	}
	for i := 0; i < n; i++ {
		toks := append([]string{}, pick(r, starts)...)
		k := 1 + r.Intn(14)
		if sp := special(i); sp != nil {
			toks = sp
			k = 0
		}
		for j := 0; j < k; j++ {
			toks = append(toks, pick(r, soupAlphabet))
		}
		text := ""
		for j, t := range toks {
			if j > 0 {
				if r.Intn(6) == 0 {
					text += "\n"
				} else {
					text += " "
				}
			}
			text += t
		}
		var lens []int
		for _, l := range splitLines(text) {
			lens = append(lens, len([]rune(l)))
		}
		lw.write(J{"id": i, "text": text, "lines": lens, "lexok": false, "accepts": false, "unspec": true, "ntoks": len(toks)})
	}
	lw.close()
	printJSON(J{"soups": n})
}

func splitLines(s string) []string {
	var out []string
	cur := ""
	for _, c := range s {
		if c == '\n' {
			out = append(out, cur)
			cur = ""
		} else {
			cur += string(c)
		}
	}
	return append(out, cur)
}
