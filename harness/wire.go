package main

// C19 below the handlers: the real binary `numscript lsp` is fed one fixed history (didOpen, didChange, hover) as a
// byte stream cut at the positions TLC chose (Wire.tla), one write per chunk; whatever the chunking, the frames it
// prints must be those of the uncut run, and the hover reply must be the one the handlers give for the latest text.

import (
	"bytes"
	"encoding/json"
	"fmt"
	"io"
	"os"
	"os/exec"
	"regexp"
	"strconv"
	"sync"
	"time"

	"github.com/formancehq/numscript/internal/lsp"
)

type wireCut struct {
	Msg    int    `json:"msg"`
	Region string `json:"region"`
	Off    int    `json:"off"`
	Of     int    `json:"of"`
}
type wireGenLine struct {
	Cuts []wireCut `json:"cuts"`
}

const wireT1 = "// café 漢\nvars {\n account $a\n}\nsend [USD 1] (\n source = $a\n destination = @b\n)\n"
const wireT2 = "// café 漢字 \U0001F600\nvars {\n account $a\n monetary $m\n}\nsend $m (\n source = $a\n destination = @b\n)\n"

const wireT3 = "send [USD 1] (\n source = @caf\u00e9 \u2192 \U0001F600\n destination = @b\n)\n"

func wireBodies() []string {
	uri := "file:///wire.num"
	mk := func(id *int, method string, params any) string {
		m := J{"jsonrpc": "2.0", "method": method, "params": params}
		if id != nil {
			m["id"] = *id
		}
		b, _ := json.Marshal(m)
		return string(b)
	}
	seven := 7
	return []string{
		mk(nil, "textDocument/didOpen", J{"textDocument": J{"uri": uri, "languageId": "numscript", "version": 1, "text": wireT1}}),
		mk(nil, "textDocument/didChange", J{"textDocument": J{"uri": uri, "version": 2}, "contentChanges": []any{J{"text": wireT2}}}),
		mk(&seven, "textDocument/hover", J{"textDocument": J{"uri": uri}, "position": J{"line": 5, "character": 6}}), // on $m of `send $m`
		// a text whose diagnostics quote characters outside ASCII: the frames the server PRINTS then contain multi-byte characters
		mk(nil, "textDocument/didChange", J{"textDocument": J{"uri": uri, "version": 3}, "contentChanges": []any{J{"text": wireT3}}}),
	}
}

var frameRe = regexp.MustCompile(`Content-Length: (\d+)\r\n\r\n`)

// split the server's output into frame bodies (strictly by the announced lengths)
func wireFrames(out []byte) (frames []string, ok bool) {
	for len(out) > 0 {
		loc := frameRe.FindSubmatchIndex(out)
		if loc == nil || loc[0] != 0 {
			return frames, false
		}
		n, _ := strconv.Atoi(string(out[loc[2]:loc[3]]))
		if loc[1]+n > len(out) {
			return frames, false
		}
		frames = append(frames, string(out[loc[1]:loc[1]+n]))
		out = out[loc[1]+n:]
	}
	return frames, true
}

type lockedBuf struct {
	mu sync.Mutex
	b  bytes.Buffer
}

func (l *lockedBuf) Write(p []byte) (int, error) {
	l.mu.Lock()
	defer l.mu.Unlock()
	return l.b.Write(p)
}
func (l *lockedBuf) Bytes() []byte {
	l.mu.Lock()
	defer l.mu.Unlock()
	return append([]byte{}, l.b.Bytes()...)
}

// one run of the binary: a handshake frame first (so that the server is known to be up and blocked in a read when
// the chunks arrive: each write is then seen as one short read), then the stream, one write per chunk
func wireRun(bin string, stream []byte, cutsAt []int) (frames []string, framed bool, exit int, timedOut bool) {
	cmd := exec.Command(bin, "lsp")
	stdin, _ := cmd.StdinPipe()
	so := &lockedBuf{}
	cmd.Stdout = so
	cmd.Stderr = io.Discard
	if err := cmd.Start(); err != nil {
		die(2, "cannot start %s: %v", bin, err)
	}
	done := make(chan error, 1)
	go func() { done <- cmd.Wait() }()
	hello := `{"jsonrpc":"2.0","id":1,"method":"initialize","params":{"processId":1,"rootUri":null,"capabilities":{}}}`
	fmt.Fprintf(stdin, "Content-Length: %d\r\n\r\n%s", len(hello), hello)
	deadline := time.Now().Add(5 * time.Second)
	for {
		if fs, _ := wireFrames(so.Bytes()); len(fs) >= 1 {
			break
		}
		if time.Now().After(deadline) {
			cmd.Process.Kill()
			<-done
			return nil, false, -1, true
		}
		time.Sleep(200 * time.Microsecond)
	}
	time.Sleep(300 * time.Microsecond)
	prev := 0
	for _, c := range append(append([]int{}, cutsAt...), len(stream)) {
		if c <= prev {
			continue
		}
		stdin.Write(stream[prev:c])
		prev = c
		time.Sleep(1200 * time.Microsecond) // the blocked server wakes up and consumes the chunk
	}
	stdin.Close()
	select {
	case err := <-done:
		if ee, ok := err.(*exec.ExitError); ok {
			exit = ee.ExitCode()
		} else if err != nil {
			exit = -1
		}
	case <-time.After(8 * time.Second):
		cmd.Process.Kill()
		<-done
		timedOut = true
	}
	frames, framed = wireFrames(so.Bytes())
	return
}

func cmdWireCheck(args []string) {
	if len(args) != 3 {
		die(2, "usage: vh wire-check <binary> <gen> <out>")
	}
	bodies := wireBodies()
	var stream []byte
	type span struct{ hdrStart, hdrLen, bodyStart, bodyLen int }
	var spans []span
	for _, b := range bodies {
		h := fmt.Sprintf("Content-Length: %d", len(b))
		spans = append(spans, span{len(stream), len(h), len(stream) + len(h) + 4, len(b)})
		stream = append(stream, []byte(h+"\r\n\r\n"+b)...)
	}
	// what the handlers answer for this history (in process, fresh state)
	st := lsp.InitialState()
	var hov any
	capture(func() {
		lsp.Handle(lspReq("textDocument/didOpen", J{"textDocument": J{"uri": "file:///wire.num", "languageId": "numscript", "version": 1, "text": wireT1}}), &st)
		lsp.Handle(lspReq("textDocument/didChange", J{"textDocument": J{"uri": "file:///wire.num", "version": 2}, "contentChanges": []any{J{"text": wireT2}}}), &st)
		hov = lsp.Handle(lspReq("textDocument/hover", J{"textDocument": J{"uri": "file:///wire.num"}, "position": J{"line": 5, "character": 6}}), &st)
	})
	canon := func(s string) string {
		var v any
		if json.Unmarshal([]byte(s), &v) != nil {
			return s
		}
		b, _ := json.Marshal(v)
		return string(b)
	}
	expHover := canon(normReply(hov))
	base, baseFramed, baseExit, baseTO := wireRun(args[0], stream, nil)
	hoverOf := func(frames []string) string {
		for _, f := range frames {
			var m struct {
				ID     *int            `json:"id"`
				Result json.RawMessage `json:"result"`
				Method string          `json:"method"`
			}
			if json.Unmarshal([]byte(f), &m) == nil && m.ID != nil && *m.ID == 7 && m.Method == "" {
				var v any
				json.Unmarshal(m.Result, &v)
				return canon(normReply(v))
			}
		}
		return "<no reply to request 7>"
	}
	lw := newLineWriter(args[2])
	n := 0
	seen := map[string]bool{}
	readLines(args[1], func(b []byte) {
		var g wireGenLine
		if err := json.Unmarshal(b, &g); err != nil {
			die(2, "bad gen line: %v", err)
		}
		at := []int{}
		for _, c := range g.Cuts {
			if c.Msg < 1 || c.Msg > len(spans) || c.Of <= 0 {
				continue
			}
			sp := spans[c.Msg-1]
			pos := 0
			switch c.Region {
			case "h":
				pos = sp.hdrStart + (c.Off*sp.hdrLen+c.Of-1)/c.Of
			case "s":
				pos = sp.hdrStart + sp.hdrLen + c.Off
			default:
				k := c.Off * sp.bodyLen / c.Of
				if k < 1 {
					k = 1
				}
				if n%2 == 1 && c.Off < c.Of {
					k = 1 + (c.Off*7919+n*31)%(sp.bodyLen-1) // any other byte of the body, incl. the middle of a multi-byte character
				}
				pos = sp.bodyStart + k
			}
			if pos > 0 && pos < len(stream) {
				at = append(at, pos)
			}
		}
		if v := os.Getenv("VERIF_WIRE_CUTS"); v != "" {
			// replay of recorded offsets
			at = []int{}
			json.Unmarshal([]byte(v), &at)
		}
		key := fmt.Sprint(at)
		if seen[key] {
			return
		}
		seen[key] = true
		frames, framed, exit, to := wireRun(args[0], stream, at)
		same := framed && len(frames) == len(base)
		if same {
			for i := range frames {
				if frames[i] != base[i] {
					same = false
				}
			}
		}
		lw.write(J{"e": "wire", "id": n, "cuts": at, "nframes": len(frames), "framed": framed, "exit": exit, "timeout": to, "sameasbase": same,
			"basenframes": len(base), "baseframed": baseFramed, "baseexit": baseExit, "basetimeout": baseTO,
			"hover": hoverOf(frames), "basehover": hoverOf(base), "exphover": expHover})
		n++
	})
	lw.close()
	printJSON(J{"cases": n, "stream_bytes": len(stream), "frames_in_uncut_run": len(base), "expected_hover": expHover})
}
