package main

// C11: purity, determinism, re-entrancy.  All comparisons are real against real.

import (
	"context"
	"encoding/json"
	"fmt"
	"math/rand"
	"os"
	"reflect"
	"strings"
	"sync"
	"sync/atomic"

	"github.com/formancehq/numscript"
	"github.com/formancehq/numscript/internal/interpreter"
)

func outcomeJ(o Outcome) J {
	j := o.toJSON()
	delete(j, "e")
	j["msg"] = o.Msg // compared between runs of the same code only (its wording is nobody's business, its stability is)
	return j
}

// other texts for the supplied variables, of the same declared types: amounts moved, portions set to zero or one,
// accounts swapped (also to world), strings changed
func altVars(c *Case) map[string]string {
	if len(c.RawVars) == 0 {
		return nil
	}
	out := copyVars(c.RawVars)
	changed := false
	for i, d := range c.Decls {
		dj := d.(J)
		t, _ := dj["type"].(string)
		name, _ := dj["name"].(string)
		v, supplied := c.RawVars[name]
		if !supplied {
			continue
		}
		switch t {
		case "number":
			out[name] = fmt.Sprint(7 + i)
		case "monetary":
			if sp := strings.LastIndex(v, " "); sp > 0 {
				out[name] = v[:sp] + " " + fmt.Sprint(11+i)
				if i%3 == 2 { // ... in the other asset
					out[name] = otherAsset(v[:sp]) + " " + fmt.Sprint(11+i)
				}
			}
		case "asset":
			out[name] = otherAsset(v)
		case "portion":
			out[name] = []string{"0%", "1/1", "1/3"}[i%3]
		case "account":
			out[name] = []string{"b", "c", "world", "b"}[i%4] // (another funded account first: what is asked of the store changes with it)
			if out[name] == v {
				out[name] = "c"
			}
		case "string":
			out[name] = v + "_"
		default:
			continue
		}
		if out[name] != v {
			changed = true
		}
	}
	if !changed {
		return nil
	}
	return out
}

func otherAsset(a string) string {
	if a == "USD" {
		return "EUR/2"
	}
	return "USD"
}

// the case's variables with two of them (of different declared types) replaced by unreadable texts
func twoBadVars(c *Case) map[string]string {
	badText := map[string]string{"number": "12,5", "account": "a b", "monetary": "USD", "portion": "abc"}
	out := copyVars(c.RawVars)
	seen := map[string]bool{}
	n := 0
	for _, d := range c.Decls {
		dj := d.(J)
		t, _ := dj["type"].(string)
		name, _ := dj["name"].(string)
		if _, supplied := c.RawVars[name]; !supplied || seen[t] || badText[t] == "" {
			continue
		}
		seen[t] = true
		out[name] = badText[t]
		n++
		if n == 2 {
			return out
		}
	}
	return nil
}

func balEqual(a interpreter.Balances, b map[string]map[string]int64) bool {
	if len(a) != len(b) {
		return false
	}
	for acc, m := range b {
		am, ok := a[acc]
		if !ok || len(am) != len(m) {
			return false
		}
		for as, v := range m {
			x, ok := am[as]
			if !ok || x == nil || !x.IsInt64() || x.Int64() != v {
				return false
			}
		}
	}
	return true
}

func metaEqual(a interpreter.AccountsMetadata, b map[string]map[string]string) bool {
	if len(a) != len(b) {
		return false
	}
	for acc, m := range b {
		if !reflect.DeepEqual(map[string]string(a[acc]), m) {
			return false
		}
	}
	return true
}

// gated execution of several runs sharing one ParseResult, one variables map and one store
func gatedRuns(p numscript.ParseResult, c *Case, vars map[string]string, store interpreter.Store, nproc int, schedule []int) []Outcome {
	var free atomic.Bool
	goCh := make([]chan struct{}, nproc+1)
	for i := range goCh {
		goCh[i] = make(chan struct{})
	}
	type msg struct {
		p    int
		done bool
	}
	evCh := make(chan msg)
	outs := make([]Outcome, nproc+1)
	var wg sync.WaitGroup
	for i := 1; i <= nproc; i++ {
		wg.Add(1)
		go func(i int) {
			defer wg.Done()
			gate := func(string) {
				if free.Load() {
					return
				}
				evCh <- msg{p: i}
				<-goCh[i]
			}
			rec := &recorder{gate: gate}
			ctx := context.WithValue(context.Background(), ctxKey{}, rec)
			gate("start")
			outs[i] = runParsed(ctx, p, vars, store, c.FlagOvd)
			if !free.Load() {
				evCh <- msg{p: i, done: true}
			}
		}(i)
	}
	finished := make([]bool, nproc+1)
	blocked := make([]bool, nproc+1)
	for n := 0; n < nproc; n++ { // all at the start gate
		m := <-evCh
		blocked[m.p] = true
	}
	for _, q := range schedule {
		if q < 1 || q > nproc || finished[q] {
			continue
		}
		blocked[q] = false
		goCh[q] <- struct{}{}
		m := <-evCh
		if m.done {
			finished[m.p] = true
		} else {
			blocked[m.p] = true
		}
	}
	// release everything; goroutines that were blocked now run freely
	free.Store(true)
	for i := 1; i <= nproc; i++ {
		if blocked[i] && !finished[i] {
			goCh[i] <- struct{}{}
		}
	}
	wg.Wait()
	return outs[1:]
}

func hasOverdraftOrigin(c *Case) bool {
	for _, d := range c.Decls {
		o := d.(J)["origin"].(J)
		if o["k"] == "call" && o["name"] == "overdraft" {
			return true
		}
	}
	return false
}

// vh conc <seed> <n> <out.ndjson> <schedules.ndjson> [free]
func cmdConc(args []string) {
	if len(args) < 4 {
		die(2, "usage: vh conc <seed> <n> <out> <schedules> [free]")
	}
	seed, n := argInt(args[0]), argInt(args[1])
	freeRun := len(args) > 4 && args[4] == "free"
	var scheds [][]int
	readLines(args[3], func(b []byte) {
		var s []int
		if err := json.Unmarshal(b, &s); err != nil {
			die(2, "bad schedule: %v", err)
		}
		scheds = append(scheds, s)
	})
	r := rand.New(rand.NewSource(int64(seed)*15485863 + 5))
	lw := newLineWriter(args[2])
	cfg := corpusCfg("multi")
	nontriv, dropped, nruns := 0, 0, 0
	var samples []any
	// members of an exhaustive SemMC.tla family (printed by TLC) as further cases: programs without variables
	var fam []*Case
	if fp := os.Getenv("VERIF_CONC_FAMILY"); fp != "" {
		k := 0
		readLines(fp, func(b []byte) {
			var g struct {
				Stmts []any                       `json:"stmts"`
				Bal   map[string]map[string]int64 `json:"bal"`
			}
			if err := json.Unmarshal(b, &g); err != nil {
				die(2, "bad family line: %v", err)
			}
			k++
			if k%3 != 0 { // a third of the family is plenty here
				return
			}
			normNums(g.Stmts)
			c := &Case{ID: n + len(fam), Corpus: "family", Decls: []any{}, Stmts: g.Stmts, VarVals: map[string]J{}, RawVars: map[string]string{}, Bal: g.Bal,
				Meta: map[string]map[string]string{}}
			c.Text = printProgram(c.Decls, c.Stmts)
			fam = append(fam, c)
		})
	}
	// members of the ShapeFam.tla family "a variable in every syntactic position that can hold one" with inputs of the declared
	// types: the re-use comparisons (other variable texts between two runs of one parsed script) reach every position
	if fp := os.Getenv("VERIF_CONC_VARFAM"); fp != "" {
		readLines(fp, func(b []byte) {
			var g struct {
				Vars    []any                        `json:"vars"`
				Stmts   []any                        `json:"stmts"`
				Bal     map[string]map[string]int64  `json:"bal"`
				Meta    map[string]map[string]string `json:"meta"`
				RawVars map[string]string            `json:"rawvars"`
				VarVals map[string]J                 `json:"varvals"`
			}
			if err := json.Unmarshal(b, &g); err != nil {
				die(2, "bad family line: %v", err)
			}
			normNums(g.Stmts)
			normNums(g.Vars)
			if g.Vars == nil {
				g.Vars = []any{}
			}
			c := &Case{ID: n + len(fam), Corpus: "varfamily", Decls: g.Vars, Stmts: g.Stmts, VarVals: g.VarVals, RawVars: g.RawVars, Bal: g.Bal, Meta: g.Meta}
			if c.RawVars == nil {
				c.RawVars = map[string]string{}
			}
			if c.Meta == nil {
				c.Meta = map[string]map[string]string{}
			}
			c.Text = printProgram(c.Decls, c.Stmts)
			fam = append(fam, c)
		})
	}
	for i := 0; i < n+len(fam); i++ {
		var c *Case
		if i >= n {
			c = fam[i-n]
		} else if i%2 == 0 {
			c = genCase(r, cfg, i)
		} else {
			c = genStoreCase(r, i)
		}
		var p numscript.ParseResult
		ok := true
		func() {
			defer func() {
				if recover() != nil {
					ok = false
				}
			}()
			p = numscript.Parse(c.Text)
		}()
		if !ok || len(p.GetParsingErrors()) > 0 {
			dropped++
			continue
		}
		fresh := func() interpreter.Store {
			return interpreter.StaticStore{Balances: mkBalances(c.Bal), Meta: mkMeta(c.Meta)}
		}
		bg := context.Background()
		var freeOuts []Outcome
		var freeUnchanged bool
		if freeRun {
			// free-running goroutines on shared inputs FIRST (for the race detector: a lazily initialised
			// shared object is only raced on its first use in the process)
			sh := interpreter.StaticStore{Balances: mkBalances(c.Bal), Meta: mkMeta(c.Meta)}
			v2 := copyVars(c.RawVars)
			freeOuts = make([]Outcome, 8)
			var wg sync.WaitGroup
			for g := 0; g < 8; g++ {
				wg.Add(1)
				go func(g int) {
					defer wg.Done()
					freeOuts[g] = runParsed(bg, p, v2, sh, c.FlagOvd)
				}(g)
			}
			wg.Wait()
			nruns += 8
			freeUnchanged = balEqual(sh.Balances, c.Bal) && metaEqual(sh.Meta, c.Meta) && reflect.DeepEqual(v2, c.RawVars)
		}
		seq := runParsed(bg, p, copyVars(c.RawVars), fresh(), c.FlagOvd)
		nruns++
		line := J{"e": "conc", "id": i, "text": c.Text, "bal": c.Bal, "meta": c.Meta, "rawvars": c.RawVars, "flagovd": c.FlagOvd, "seq": outcomeJ(seq)}
		// purity: two runs on the SAME store objects and the same variables map
		shared := interpreter.StaticStore{Balances: mkBalances(c.Bal), Meta: mkMeta(c.Meta)}
		vars := copyVars(c.RawVars)
		idRec := &recorder{}
		o1 := runParsed(context.WithValue(bg, ctxKey{}, idRec), p, vars, shared, c.FlagOvd)
		ident := J{"sameOuter": false, "sharedInner": false, "sharedInt": false, "fetches": 0}
		for _, e := range idRec.events {
			if e["e"] == "cache" {
				ident["fetches"] = ident["fetches"].(int) + 1
				for _, k := range []string{"sameOuter", "sharedInner", "sharedInt"} {
					if e[k] == true {
						ident[k] = true
					}
				}
			}
		}
		line["identity"] = ident
		balOK1 := balEqual(shared.Balances, c.Bal)
		o2 := runParsed(bg, p, vars, shared, c.FlagOvd)
		nruns += 2
		line["purity"] = J{"first": outcomeJ(o1), "second": outcomeJ(o2), "balUnchanged": balOK1 && balEqual(shared.Balances, c.Bal),
			"metaUnchanged": metaEqual(shared.Meta, c.Meta), "varsUnchanged": reflect.DeepEqual(vars, c.RawVars)}
		// determinism: repetitions on fresh inputs (map iteration order varies between runs)
		reps := []any{}
		for k := 0; k < 3; k++ {
			reps = append(reps, outcomeJ(runParsed(bg, p, copyVars(c.RawVars), fresh(), c.FlagOvd)))
			nruns++
		}
		line["repeats"] = reps
		// ... and on a store that answers exactly what it is asked (map iteration order inside the query matters there)
		ex := []any{}
		for k := 0; k < 4; k++ {
			st := &scriptStore{bal: c.Bal, meta: c.Meta, modes: []string{"exact"}}
			ex = append(ex, outcomeJ(runParsed(bg, p, copyVars(c.RawVars), st, c.FlagOvd)))
			nruns++
		}
		line["repeats_exact"] = ex
		// ... and with the texts of the supplied variables padded with white space (whatever a run makes of them, the
		// caller's map keeps them as they were)
		if len(c.RawVars) > 0 {
			padded := copyVars(c.RawVars)
			for k, v := range padded {
				padded[k] = " " + v + "\n"
			}
			orig := copyVars(padded)
			runParsed(bg, p, padded, fresh(), c.FlagOvd)
			nruns++
			line["paddedVarsUnchanged"] = reflect.DeepEqual(padded, orig)
		}
		// ... and the parsed script is a value: running it with OTHER variable texts in between changes nothing, and the
		// run with the other texts equals the same run on a freshly parsed script
		if alt := altVars(c); alt != nil {
			pFresh := numscript.Parse(c.Text)
			wantAlt := runParsed(bg, pFresh, copyVars(alt), fresh(), c.FlagOvd)
			first := runParsed(bg, p, copyVars(c.RawVars), fresh(), c.FlagOvd)
			gotAlt := runParsed(bg, p, copyVars(alt), fresh(), c.FlagOvd)
			again := runParsed(bg, p, copyVars(c.RawVars), fresh(), c.FlagOvd)
			nruns += 4
			line["reuse"] = J{"alt": alt, "wantAlt": outcomeJ(wantAlt), "gotAlt": outcomeJ(gotAlt), "first": outcomeJ(first), "again": outcomeJ(again)}
			// ... the same against a store that answers exactly what it is asked (what a run asks for is decided by ITS variables)
			exact := func() numscript.Store { return &scriptStore{bal: c.Bal, meta: c.Meta, modes: []string{"exact"}} }
			wantAltX := runParsed(bg, numscript.Parse(c.Text), copyVars(alt), exact(), c.FlagOvd)
			firstX := runParsed(bg, p, copyVars(c.RawVars), exact(), c.FlagOvd)
			gotAltX := runParsed(bg, p, copyVars(alt), exact(), c.FlagOvd)
			againX := runParsed(bg, p, copyVars(c.RawVars), exact(), c.FlagOvd)
			nruns += 4
			line["reusex"] = J{"alt": alt, "wantAlt": outcomeJ(wantAltX), "gotAlt": outcomeJ(gotAltX), "first": outcomeJ(firstX), "again": outcomeJ(againX)}
		}
		// ... and with two supplied variables unreadable at once (which one is reported must not depend on the
		// iteration order of the caller's map)
		if bad := twoBadVars(c); bad != nil {
			rb := []any{}
			for k := 0; k < 24; k++ {
				rb = append(rb, outcomeJ(runParsed(bg, p, copyVars(bad), fresh(), c.FlagOvd)))
				nruns++
			}
			line["repeats_bad"] = rb
			line["badvars"] = bad
		}
		// flags: on / off
		on := runParsed(bg, p, copyVars(c.RawVars), fresh(), true)
		off := runParsed(bg, p, copyVars(c.RawVars), fresh(), false)
		nruns += 2
		// flag SETS: a name that gates nothing, next to the gating flag or alone, changes nothing - whatever order the caller's map yields
		runFlags := func(names ...string) J {
			fl := map[string]struct{}{}
			for _, nm := range names {
				fl[nm] = struct{}{}
			}
			o := runParsedFlags(bg, p, copyVars(c.RawVars), fresh(), fl)
			return outcomeJ(o)
		}
		onplus, offplus := []any{}, []any{}
		others := []string{"experimental-something-else", "a", "zzz-unknown-flag"}
		for k := 0; k < 6; k++ {
			o1, o2 := others[k%3], others[(k+1)%3]
			if k%2 == 0 {
				onplus = append(onplus, runFlags(o1, interpreter.ExperimentalOverdraftFunctionFeatureFlag, o2))
			} else {
				onplus = append(onplus, runFlags(interpreter.ExperimentalOverdraftFunctionFeatureFlag, o1))
			}
			offplus = append(offplus, runFlags(o1, o2))
			nruns += 2
		}
		line["flags"] = J{"on": outcomeJ(on), "off": outcomeJ(off), "gated": hasOverdraftOrigin(c), "onplus": onplus, "offplus": offplus}
		// gated interleavings chosen by TLC (Concurrent.tla), two runs sharing everything
		gated := []any{}
		ng := 2
		if freeRun {
			ng = 0
		}
		for k := 0; k < ng && len(scheds) > 0; k++ {
			s := scheds[r.Intn(len(scheds))]
			sh := interpreter.StaticStore{Balances: mkBalances(c.Bal), Meta: mkMeta(c.Meta)}
			v2 := copyVars(c.RawVars)
			outs := gatedRuns(p, c, v2, sh, 2, s)
			nruns += 2
			gated = append(gated, J{"schedule": s, "outs": []any{outcomeJ(outs[0]), outcomeJ(outs[1])},
				"inputsUnchanged": balEqual(sh.Balances, c.Bal) && metaEqual(sh.Meta, c.Meta) && reflect.DeepEqual(v2, c.RawVars)})
		}
		if freeRun {
			os := []any{}
			for _, o := range freeOuts {
				os = append(os, outcomeJ(o))
			}
			gated = append(gated, J{"schedule": []int{}, "outs": os, "inputsUnchanged": freeUnchanged})
		}
		line["gated"] = gated
		lw.write(line)
		if len(seq.Post) >= 1 {
			nontriv++
			if len(samples) < 2 {
				samples = append(samples, J{"script": c.Text, "balances": c.Bal, "sequential": postingsToJSON(seq.Post), "schedules": gated})
			}
		}
	}
	lw.close()
	printJSON(J{"cases": n - dropped, "runs": nruns, "nontrivial": nontriv, "dropped": dropped, "samples": samples, "hooks": hooksPresent})
}
