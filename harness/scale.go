package main

// Scaling lift for amounts beyond TLC's integers (C06): a small single-allotment case whose shares
// divide exactly is validated by TLC as usual; the same case with the amount multiplied by a huge
// factor U (fed through a monetary variable) must give exactly U times the small shares - a
// multiplication, not a semantics.

import (
	"context"
	"fmt"
	"math/big"
	"math/rand"

	"github.com/formancehq/numscript"
)

var scaleFactors = []string{"2147483648", "18446744073709551617", "1000000000000000000000000000000", "9223372036854775807",
	"1099511627776", "4503599627370496", "1000000000000000", "36028797018963968", "281474976710656", "9223372036854775808", "18446744073709551616",
	"1152921504606846976", "2305843009213693952", "4611686018427387904", "3074457345618258603"} // 2^60 .. 2^62, (2^64-1)/6: small multiples on both sides of 2^63 and 2^64 // incl. factors that keep the amount below 2^63 while amount x numerator exceeds it

// vh allot-scale <seed> <n> <small-trace.ndjson> <scale.ndjson>
func cmdAllotScale(args []string) {
	if len(args) != 4 {
		die(2, "usage: vh allot-scale <seed> <n> <small-trace> <scale-out>")
	}
	seed, n := argInt(args[0]), argInt(args[1])
	r := rand.New(rand.NewSource(int64(seed)*6700417 + 13))
	lwSmall := newLineWriter(args[2])
	lw := newLineWriter(args[3])
	cnt := 0
	var samples []any
	for i := 0; cnt < n && i < 20*n; i++ {
		c := genAllotCase(r, i)
		st := c.Stmts[0].(J)
		// the amount becomes a variable, and a multiple of the common denominator so that every share is exact
		amt := st["sent"].(J)["amt"].(J)["v"].(int)
		asset := st["sent"].(J)["asset"].(J)["v"].(string)
		L := 1
		allotItems := func() []any {
			if st["src"].(J)["k"] == "allot" {
				return asList(st["src"].(J)["it"])
			}
			return asList(st["dst"].(J)["it"])
		}()
		ok := true
		for _, it := range allotItems {
			p := it.(J)["p"].(J)
			if p["k"] == "portion" {
				d := p["d"].(int)
				if d == 0 {
					ok = false
					break
				}
				L = L / gcdInt(L, d) * d
			} else if p["k"] == "var" {
				v := c.VarVals[p["name"].(string)]
				d := v["d"].(int)
				L = L / gcdInt(L, d) * d
			}
		}
		// allotments nested in a clause split a share again: their denominators multiply in
		L2 := 1
		for _, it := range allotItems {
			for _, key := range []string{"s", "to"} {
				sub, _ := it.(J)[key].(J)
				walkJ(sub, func(x J) {
					if x["k"] == "portion" {
						if d, isInt := x["d"].(int); isInt && d > 0 {
							L2 = L2 / gcdInt(L2, d) * d
						}
					}
				})
			}
		}
		L *= L2
		if !ok || L > 100000 {
			continue
		}
		small := L * (1 + amt%50)
		st["sent"] = eVar("amt")
		c.Decls = append(c.Decls, J{"type": "monetary", "name": "amt", "origin": J{"k": "none"}})
		c.RawVars["amt"] = fmt.Sprintf("%s %d", asset, small)
		c.VarVals["amt"] = J{"t": "mon", "a": asset, "v": small}
		c.Text = printProgram(c.Decls, c.Stmts)
		c.ID = cnt
		er := execCase(c)
		if er.dropped != "" || er.outcome.St != "ok" {
			continue
		}
		lwSmall.write(er.caseLine)
		for _, e := range er.events {
			lwSmall.write(e)
		}
		lwSmall.write(er.outcome.toJSON())
		// the big run
		U, _ := new(big.Int).SetString(pick(r, scaleFactors), 10)
		bigAmt := new(big.Int).Mul(U, big.NewInt(int64(small)))
		vars := copyVars(c.RawVars)
		vars["amt"] = asset + " " + bigAmt.String()
		p := numscript.Parse(c.Text)
		o := runParsed(context.Background(), p, vars, caseStore(c.ID, c.Bal, c.Meta), false)
		equal := o.St == "ok" && len(o.Post) == len(er.outcome.Post)
		bigPost := []any{}
		positive := true // every posting of the big run: strictly positive, in the statement's asset, between named accounts
		if o.St == "ok" {
			for j, po := range o.Post {
				bigPost = append(bigPost, []any{po.Source, po.Destination, po.Amount.String(), po.Asset})
				if po.Amount == nil || po.Amount.Sign() <= 0 || po.Asset != asset || po.Source == "" || po.Destination == "" || po.Source == "<kept>" || po.Destination == "<kept>" {
					positive = false
				}
				if equal {
					sp := er.outcome.Post[j]
					want := new(big.Int).Mul(U, sp.Amount)
					if po.Source != sp.Source || po.Destination != sp.Destination || po.Asset != sp.Asset || po.Amount.Cmp(want) != 0 {
						equal = false
					}
				}
			}
		}
		// C03 beyond TLC's integers: the postings of the big run add up to U times what the (TLC-validated) small run moved, or there are none
		sumSmall, sumBig := new(big.Int), new(big.Int)
		for _, sp := range er.outcome.Post {
			sumSmall.Add(sumSmall, sp.Amount)
		}
		for _, po := range o.Post {
			if po.Amount != nil {
				sumBig.Add(sumBig, po.Amount)
			}
		}
		sumok := (o.St == "ok" && sumBig.Cmp(new(big.Int).Mul(U, sumSmall)) == 0) || (o.St != "ok" && len(o.Post) == 0)
		line := J{"e": "scale", "n": cnt, "id": cnt, "text": c.Text, "factor": U.String(), "small": postingsToJSON(er.outcome.Post), "big": bigPost, "st": o.St, "equal": equal,
			"rawvars": c.RawVars, "positive": positive, "sumok": sumok}
		lw.write(line)
		if len(samples) < 2 && len(o.Post) >= 2 {
			samples = append(samples, line)
		}
		cnt++
	}
	lwSmall.close()
	lw.close()
	printJSON(J{"cases": cnt, "samples": samples})
}

// ---- generic scaling lift (no allotments): every number of a case is multiplied by U ----------------

func liftNumbers(x any, c *Case, counter *int) {
	switch v := x.(type) {
	case J:
		for _, k := range sortedKeys(v) {
			if child, ok := v[k].(J); ok && child["k"] == "num" {
				name := fmt.Sprintf("z%c%c", 'a'+(*counter)/26, 'a'+(*counter)%26)
				*counter++
				c.Decls = append(c.Decls, J{"type": "number", "name": name, "origin": J{"k": "none"}})
				c.RawVars[name] = fmt.Sprint(child["v"])
				c.VarVals[name] = J{"t": "num", "v": child["v"]}
				v[k] = eVar(name)
			} else {
				liftNumbers(v[k], c, counter)
			}
		}
	case []any:
		for i, y := range v {
			if child, ok := y.(J); ok && child["k"] == "num" {
				name := fmt.Sprintf("z%c%c", 'a'+(*counter)/26, 'a'+(*counter)%26)
				*counter++
				c.Decls = append(c.Decls, J{"type": "number", "name": name, "origin": J{"k": "none"}})
				c.RawVars[name] = fmt.Sprint(child["v"])
				c.VarVals[name] = J{"t": "num", "v": child["v"]}
				v[i] = eVar(name)
			} else {
				liftNumbers(y, c, counter)
			}
		}
	}
}

type bigStore struct {
	bal   map[string]map[string]*big.Int
	meta  map[string]map[string]string
	exact bool // answer exactly what is asked (every balance that matters must have been requested, however large the amounts)
}

func (s bigStore) GetBalances(_ context.Context, q numscript.BalanceQuery) (numscript.Balances, error) {
	out := numscript.Balances{}
	if s.exact {
		for a, assets := range q {
			out[a] = numscript.AccountBalance{}
			for _, as := range assets {
				v := new(big.Int)
				if x := s.bal[a][as]; x != nil {
					v.Set(x)
				}
				out[a][as] = v
			}
		}
		return out, nil
	}
	for a, m := range s.bal {
		out[a] = numscript.AccountBalance{}
		for as, v := range m {
			out[a][as] = new(big.Int).Set(v)
		}
	}
	return out, nil
}
func (s bigStore) GetAccountsMetadata(context.Context, numscript.MetadataQuery) (numscript.AccountsMetadata, error) {
	return mkMeta(s.meta), nil
}

// vh scale-sem <corpus> <prop> <seed> <n> <small-trace.ndjson> <scale.ndjson>
func cmdScaleSem(args []string) {
	if len(args) != 6 {
		die(2, "usage: vh scale-sem <corpus> <prop> <seed> <n> <small-trace> <scale-out>")
	}
	cfg := corpusCfg(args[0])
	cfg.allowSrcAllot, cfg.allowDstAllot, cfg.portionVars, cfg.origins = false, false, false, false
	cfg.wTx, cfg.wAm = 0, 0
	cfg.infix = true
	if cfg.maxStmts < 2 {
		cfg.maxStmts = 2
	}
	if cfg.maxVars < 3 {
		cfg.maxVars = 3
	}
	if cfg.wSend+cfg.wSave == 0 {
		cfg.wSend = 10
	}
	prop := args[1]
	seed, n := argInt(args[2]), argInt(args[3])
	r := rand.New(rand.NewSource(int64(seed)*373587883 + int64(len(args[0]))))
	lwSmall := newLineWriter(args[4])
	lw := newLineWriter(args[5])
	cnt, nontriv := 0, 0
	var samples []any
	for i := 0; cnt < n && i < 10*n; i++ {
		c := genCase(r, cfg, cnt)
		// no portion-typed or string variables matter; every number literal becomes a number variable
		counter := 0
		liftNumbers(c.Stmts, c, &counter)
		if len(c.Decls) > 24 {
			continue // long declaration lists make the recursive Decl operator of the specification overflow TLC's evaluation stack
		}
		c.Text = printProgram(c.Decls, c.Stmts)
		er := execCase(c)
		if er.dropped != "" {
			continue
		}
		lwSmall.write(er.caseLine)
		for _, e := range er.events {
			lwSmall.write(e)
		}
		lwSmall.write(er.outcome.toJSON())
		U, _ := new(big.Int).SetString(pick(r, scaleFactors), 10)
		vars := map[string]string{}
		for _, d := range c.Decls {
			dj := d.(J)
			name := dj["name"].(string)
			raw, ok := c.RawVars[name]
			if !ok {
				continue
			}
			val := c.VarVals[name]
			switch val["t"] {
			case "num":
				vars[name] = new(big.Int).Mul(U, big.NewInt(int64(val["v"].(int)))).String()
			case "mon":
				vars[name] = fmt.Sprintf("%s %s", val["a"], new(big.Int).Mul(U, big.NewInt(int64(val["v"].(int)))).String())
			default:
				vars[name] = raw
			}
		}
		bal := map[string]map[string]*big.Int{}
		for a, m := range c.Bal {
			bal[a] = map[string]*big.Int{}
			for as, v := range m {
				bal[a][as] = new(big.Int).Mul(U, big.NewInt(v))
			}
		}
		p := numscript.Parse(c.Text)
		o := runParsed(context.Background(), p, vars, bigStore{bal: bal, meta: c.Meta, exact: c.ID%2 == 1}, false)
		equal := o.St == er.outcome.St && len(o.Post) == len(er.outcome.Post)
		bigPost := []any{}
		for j, po := range o.Post {
			bigPost = append(bigPost, []any{po.Source, po.Destination, po.Amount.String(), po.Asset})
			if equal {
				sp := er.outcome.Post[j]
				if po.Source != sp.Source || po.Destination != sp.Destination || po.Asset != sp.Asset || po.Amount.Cmp(new(big.Int).Mul(U, sp.Amount)) != 0 {
					equal = false
				}
			}
		}
		// variables read back at the end of the script (corpora with readBack): what is read is what was given
		given, read := J{}, J{}
		if o.St == "ok" {
			for name, text := range vars {
				if got, ok := o.TxMeta["zz_"+name]; ok {
					if t := c.VarVals[name]["t"]; t == "num" || t == "mon" {
						given[name], read[name] = text, got
					}
				}
			}
		}
		line := J{"e": "scale", "prop": prop, "n": cnt, "id": cnt, "text": c.Text, "factor": U.String(), "small": postingsToJSON(er.outcome.Post), "smallst": er.outcome.St,
			"big": bigPost, "st": o.St, "equal": equal, "rawvars": c.RawVars, "bal": c.Bal, "given": given, "read": read}
		lw.write(line)
		if len(er.outcome.Post) >= 2 {
			nontriv++
			if len(samples) < 1 {
				samples = append(samples, line)
			}
		}
		cnt++
	}
	lwSmall.close()
	lw.close()
	printJSON(J{"cases": cnt, "nontrivial": nontriv, "samples": samples})
}
