package main

// Scaling lift for amounts beyond TLC's integers (C06): a small single-allotment case whose shares
// divide exactly is validated by TLC as usual; the same case with the amount multiplied by a huge
// factor U (fed through a monetary variable) must give exactly U times the small shares - a
// multiplication, not a semantics.

import (
	"context"
	"fmt"
	"math/big"
	"math/rand"

	"github.com/formancehq/numscript"
)

var scaleFactors = []string{"2147483648", "18446744073709551617", "1000000000000000000000000000000", "9223372036854775807",
	"1099511627776", "4503599627370496", "1000000000000000", "36028797018963968", "281474976710656"} // incl. factors that keep the amount below 2^63 while amount x numerator exceeds it

// vh allot-scale <seed> <n> <small-trace.ndjson> <scale.ndjson>
func cmdAllotScale(args []string) {
	if len(args) != 4 {
		die(2, "usage: vh allot-scale <seed> <n> <small-trace> <scale-out>")
	}
	seed, n := argInt(args[0]), argInt(args[1])
	r := rand.New(rand.NewSource(int64(seed)*6700417 + 13))
	lwSmall := newLineWriter(args[2])
	lw := newLineWriter(args[3])
	cnt := 0
	var samples []any
	for i := 0; cnt < n && i < 20*n; i++ {
		c := genAllotCase(r, i)
		st := c.Stmts[0].(J)
		// the amount becomes a variable, and a multiple of the common denominator so that every share is exact
		amt := st["sent"].(J)["amt"].(J)["v"].(int)
		asset := st["sent"].(J)["asset"].(J)["v"].(string)
		L := 1
		allotItems := func() []any {
			if st["src"].(J)["k"] == "allot" {
				return asList(st["src"].(J)["it"])
			}
			return asList(st["dst"].(J)["it"])
		}()
		ok := true
		for _, it := range allotItems {
			p := it.(J)["p"].(J)
			if p["k"] == "portion" {
				d := p["d"].(int)
				if d == 0 {
					ok = false
					break
				}
				L = L / gcdInt(L, d) * d
			} else if p["k"] == "var" {
				v := c.VarVals[p["name"].(string)]
				d := v["d"].(int)
				L = L / gcdInt(L, d) * d
			}
		}
		if !ok || L > 100000 {
			continue
		}
		small := L * (1 + amt%50)
		st["sent"] = eVar("amt")
		c.Decls = append(c.Decls, J{"type": "monetary", "name": "amt", "origin": J{"k": "none"}})
		c.RawVars["amt"] = fmt.Sprintf("%s %d", asset, small)
		c.VarVals["amt"] = J{"t": "mon", "a": asset, "v": small}
		c.Text = printProgram(c.Decls, c.Stmts)
		c.ID = cnt
		er := execCase(c)
		if er.dropped != "" || er.outcome.St != "ok" {
			continue
		}
		lwSmall.write(er.caseLine)
		for _, e := range er.events {
			lwSmall.write(e)
		}
		lwSmall.write(er.outcome.toJSON())
		// the big run
		U, _ := new(big.Int).SetString(pick(r, scaleFactors), 10)
		bigAmt := new(big.Int).Mul(U, big.NewInt(int64(small)))
		vars := copyVars(c.RawVars)
		vars["amt"] = asset + " " + bigAmt.String()
		p := numscript.Parse(c.Text)
		o := runParsed(context.Background(), p, vars, copyStore{bal: c.Bal, meta: c.Meta}, false)
		equal := o.St == "ok" && len(o.Post) == len(er.outcome.Post)
		bigPost := []any{}
		if o.St == "ok" {
			for j, po := range o.Post {
				bigPost = append(bigPost, []any{po.Source, po.Destination, po.Amount.String(), po.Asset})
				if equal {
					sp := er.outcome.Post[j]
					want := new(big.Int).Mul(U, sp.Amount)
					if po.Source != sp.Source || po.Destination != sp.Destination || po.Asset != sp.Asset || po.Amount.Cmp(want) != 0 {
						equal = false
					}
				}
			}
		}
		line := J{"e": "scale", "n": cnt, "id": cnt, "text": c.Text, "factor": U.String(), "small": postingsToJSON(er.outcome.Post), "big": bigPost, "st": o.St, "equal": equal,
			"rawvars": c.RawVars}
		lw.write(line)
		if len(samples) < 2 && len(o.Post) >= 2 {
			samples = append(samples, line)
		}
		cnt++
	}
	lwSmall.close()
	lw.close()
	printJSON(J{"cases": cnt, "samples": samples})
}
