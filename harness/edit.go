package main

// C14 / C18: the parser and the editor analyses on the documents printed by Edit.tla.

import (
	"encoding/json"
	"fmt"
	"sort"
	"strings"
	"time"

	"github.com/formancehq/numscript"
	"github.com/formancehq/numscript/internal/analysis"
	"github.com/formancehq/numscript/internal/parser"
)

type editGenLine struct {
	ID      int    `json:"id"`
	Text    string `json:"text"`
	Lines   []int  `json:"lines"`
	LexOK   bool   `json:"lexok"`
	Accepts bool   `json:"accepts"`
	Unspec  bool   `json:"unspec"`
	NToks   int    `json:"ntoks"`
}

func withTimeout(d time.Duration, f func()) (panicMsg string, timedOut bool) {
	done := make(chan string, 1)
	go func() {
		defer func() {
			if r := recover(); r != nil {
				done <- "panic: " + oneLine(fmt.Sprint(r))
				return
			}
			done <- ""
		}()
		f()
	}()
	select {
	case m := <-done:
		return m, false
	case <-time.After(d):
		return "", true
	}
}

// a fixed valid script: whatever was parsed before it (also a text that made the parser panic), it has no errors
const parserSentinel = "vars {\n account $a\n}\nsend [USD 1] (\n source = $a\n destination = @b\n)\n"

func parserSentinelOK() bool {
	ok := false
	func() {
		defer func() { recover() }()
		ok = len(numscript.Parse(parserSentinel).GetParsingErrors()) == 0
	}()
	return ok
}

func observeParser(text string) J {
	obs := J{"panic": "", "timeout": false, "nerr": 0, "errs": []any{}, "showpanic": "", "sentinel": true}
	defer func() {
		if !parserSentinelOK() {
			obs["sentinel"] = false
		}
	}()
	var errs []numscript.ParserError
	msg, to := withTimeout(10*time.Second, func() {
		p := numscript.Parse(text)
		errs = p.GetParsingErrors()
	})
	obs["panic"], obs["timeout"] = msg, to
	if msg != "" || to {
		return obs
	}
	obs["nerr"] = len(errs)
	es := []any{}
	for _, e := range errs {
		es = append(es, []any{e.Range.Start.Line, e.Range.Start.Character, e.Range.End.Line, e.Range.End.Character})
	}
	obs["errs"] = es
	msg, to = withTimeout(10*time.Second, func() { _ = numscript.ParseErrorsToString(errs, text) })
	if to {
		msg = "timeout"
	}
	obs["showpanic"] = msg
	return obs
}

func diagSet(ds []analysis.Diagnostic) []string {
	var out []string
	for _, d := range ds {
		out = append(out, fmt.Sprint(diagKind(d), d.Kind.Severity(), d.Range, d.Kind.Message()))
	}
	sort.Strings(out)
	return out
}

func symSet(ss []analysis.DocumentSymbol) []string {
	var out []string
	for _, s := range ss {
		out = append(out, fmt.Sprint(s.Name, s.Detail, s.Range, s.SelectionRange, s.Kind))
	}
	sort.Strings(out)
	return out
}

// a fixed text whose diagnostics depend on the signature of every built-in and on every kind of declaration: analysing
// any other document must not change what it is told (process-wide state)
const sentinelText = "vars {\n monetary $b = balance(5, 6)\n string $m = meta(7, 8)\n monetary $o = overdraft(9, 10)\n portion $p\n}\n" +
	"set_account_meta(@a, 5, 1)\nset_tx_meta(5, 1)\nset_account_meta(1, \"k\", $p)\nsend [USD 1] (\n source = { $p from @a\n remaining from @b }\n destination = $m\n)\n"

var sentinelFirst string

func sentinelNow() string {
	out := "panic"
	func() {
		defer func() { recover() }()
		r := analysis.CheckSource(sentinelText)
		out = strings.Join(diagSet(r.Diagnostics), "|") + "#" + strings.Join(symSet(r.GetSymbols()), "|")
	}()
	return out
}

func observeAnalysis(text string) J {
	obs := J{"panic": "", "timeout": false, "diags": []any{}, "deterministic": true, "positions": 0, "nsyms": 0, "sentinel": true}
	if sentinelFirst == "" {
		sentinelFirst = sentinelNow()
	}
	defer func() {
		// what analysing this document did to the analysis of the fixed sentinel text
		if sentinelNow() != sentinelFirst {
			obs["sentinel"] = false
			sentinelFirst = sentinelNow() // report each change once
		}
	}()
	lines := strings.Split(text, "\n")
	msg, to := withTimeout(20*time.Second, func() {
		stage := "check"
		defer func() {
			if r := recover(); r != nil {
				panic(fmt.Sprintf("%s: %v", stage, r))
			}
		}()
		r1 := analysis.CheckSource(text)
		r2 := analysis.CheckSource(text)
		obs["diags"] = diagsToJSON(r1.Diagnostics)
		if len(r1.Diagnostics) >= 8 {
			// many diagnostics: whatever is collected from a map and then limited, sorted or de-duplicated shows after a few more analyses
			for k := 0; k < 6; k++ {
				rk := analysis.CheckSource(text)
				if strings.Join(diagSet(r1.Diagnostics), "|") != strings.Join(diagSet(rk.Diagnostics), "|") || strings.Join(symSet(r1.GetSymbols()), "|") != strings.Join(symSet(rk.GetSymbols()), "|") {
					obs["deterministic"] = false
				}
			}
		}
		stage = "symbols"
		s1 := r1.GetSymbols()
		s2 := r2.GetSymbols()
		obs["nsyms"] = len(s1)
		if strings.Join(diagSet(r1.Diagnostics), "|") != strings.Join(diagSet(r2.Diagnostics), "|") || strings.Join(symSet(s1), "|") != strings.Join(symSet(s2), "|") {
			obs["deterministic"] = false
		}
		n := 0
		// very long documents (the size family): every position of the first and last 40 lines, every 7th line in between
		for li, l := range lines {
			if len(lines) > 120 && li >= 40 && li < len(lines)-40 && li%7 != 0 {
				continue
			}
			for ch := 0; ch <= len([]rune(l))+1; ch++ {
				pos := parser.Position{Line: li, Character: ch}
				stage = fmt.Sprintf("hover at %d:%d", li, ch)
				_ = analysis.HoverOn(r1.Program, pos)
				stage = fmt.Sprintf("definition at %d:%d", li, ch)
				_ = analysis.GotoDefinition(r1.Program, pos, r1)
				n++
			}
		}
		obs["positions"] = n
	})
	obs["panic"], obs["timeout"] = msg, to
	return obs
}

// vh edit-check <gen.ndjson> <out.ndjson> <parser|analysis>
func cmdEditCheck(args []string) {
	if len(args) != 3 {
		die(2, "usage: vh edit-check <gen> <out> <parser|analysis>")
	}
	lw := newLineWriter(args[1])
	n, nontriv, positions := 0, 0, 0
	var samples []any
	if args[2] == "analysis" {
		provokeOnce.Do(provoke) // texts with diagnostics of nearly every kind, analysed and rendered before the first document
	}
	readLines(args[0], func(b []byte) {
		var g editGenLine
		if err := json.Unmarshal(b, &g); err != nil {
			die(2, "bad gen line: %v", err)
		}
		g.Text = widen(g.Text, n) // wider characters, same positions (TLC itself only carries Latin-1 safely)
		switch n % 7 {
		case 3, 5:
			// the same document with CRLF line ends (5: cut right after its last carriage return): the same tokens, hence
			// the same verdict; the line table counts the carriage return as a character of its line
			if !strings.Contains(g.Text, "\r") && strings.Contains(g.Text, "\n") {
				t := strings.ReplaceAll(g.Text, "\n", "\r\n")
				if n%7 == 5 && strings.HasSuffix(t, "\r\n") {
					t = t[:len(t)-1]
				}
				g.Text = t
				g.Lines = nil
				for _, l := range strings.Split(t, "\n") {
					g.Lines = append(g.Lines, len([]rune(l)))
				}
			}
		}
		line := J{"e": "edit", "id": g.ID, "n": n, "text": g.Text, "lines": g.Lines, "lexok": g.LexOK, "accepts": g.Accepts, "unspec": g.Unspec}
		if args[2] == "parser" {
			line["obs"] = observeParser(g.Text)
		} else {
			o := observeAnalysis(g.Text)
			positions += o["positions"].(int)
			line["obs"] = o
		}
		lw.write(line)
		if !g.Accepts {
			nontriv++
		}
		if len(samples) < 3 && n%997 == 5 {
			samples = append(samples, line)
		}
		n++
	})
	lw.close()
	printJSON(J{"cases": n, "nontrivial": nontriv, "positions": positions, "samples": samples})
}
