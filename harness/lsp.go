package main

// C19: histories of LSP notifications / requests (printed by Lsp.tla) fed to one long-lived real
// server, every reply compared with a fresh real server that only knows the latest text; and
// hover / definition at every cursor position of generated scripts.

import (
	"encoding/json"
	"fmt"
	"io"
	"os"
	"regexp"
	"sort"
	"strings"
	"sync"

	"github.com/formancehq/numscript/internal/analysis"
	"github.com/formancehq/numscript/internal/lsp"
	"github.com/sourcegraph/jsonrpc2"
)

var lspTexts = []string{
	"",
	"vars {\n account $a\n}\nsend [USD 1] (\n source = $a\n destination = @b\n)\n",
	"vars {\n monetary $m = balance(@x, USD)\n}\nsend $m (\n source = @world\n destination = @y\n)\n",
	// multi-line diagnostics that end at a smaller column than they start
	"send [COIN 3] (\n source = @a\n   destination = {\n      1/2 to @b\n      1/3 to @c\n }\n)\nset_tx_meta(\"k\"\n)\n" +
		// (several diagnostics of the same kind in a row: `remaining` twice before the last clause)
		"send [COIN 100] (source = { remaining from @a remaining from @b 1/2 from @c } destination = @dest)\n",
	"set_tx_meta(\"k\", $undefined)\nsend [EUR 2] (\n",
	"vars {\n portion $p\n portion $p\n}\nsend [COIN 3] (\n source = @a\n destination = { $p to @b\n remaining kept }\n)\n",
}
var lspProbes = [][2]int{{0, 0}, {3, 6}, {4, 11}, {1, 16}}

// The specification treats texts as opaque identifiers; every history is replayed under two assignments of concrete texts
// to them: unrelated texts (above), and texts that are near-variants of ONE script - blank lines in front, blanks behind, a
// leading blank, one character replaced (same length), the last newline missing - so that a server which decides "nothing
// changed" from a digest of the text (trimmed content, length, prefix, number of lines) answers from a stale analysis.
const lspBase = "vars {\n account $a\n}\nsend [USD 1] (\n source = $a\n destination = @b\n)\nset_tx_meta(\"k\", $a)"

var lspTextSets = [][]string{
	nil, // filled in init: the unrelated texts
	{"", lspBase + "\n", "\n\n" + lspBase + "\n", lspBase, lspBase + "\n\n\n", strings.Replace(lspBase, "$a\n}", "$b\n}", 1) + "\n"},
}
var lspProbeSets = [][][2]int{nil, {{0, 0}, {4, 11}, {6, 11}, {7, 18}}}

func init() {
	lspTextSets[0] = lspTexts
	lspProbeSets[0] = lspProbes
}

var captureMu sync.Mutex

// run f with stdout / stderr captured (the server prints its notifications)
func capture(f func()) (out string, panicMsg string) {
	captureMu.Lock()
	defer captureMu.Unlock()
	oldOut, oldErr := os.Stdout, os.Stderr
	r, w, err := os.Pipe()
	if err != nil {
		die(2, "pipe: %v", err)
	}
	devnull, _ := os.OpenFile(os.DevNull, os.O_WRONLY, 0)
	os.Stdout, os.Stderr = w, devnull
	done := make(chan string)
	go func() {
		b, _ := io.ReadAll(r)
		done <- string(b)
	}()
	func() {
		defer func() {
			if rec := recover(); rec != nil {
				panicMsg = oneLine(fmt.Sprint(rec))
			}
		}()
		f()
	}()
	w.Close()
	os.Stdout, os.Stderr = oldOut, oldErr
	devnull.Close()
	out = <-done
	r.Close()
	return
}

func lspReq(method string, params any) jsonrpc2.Request {
	b, _ := json.Marshal(params)
	raw := json.RawMessage(b)
	return jsonrpc2.Request{Method: method, Params: &raw}
}

var clRe = regexp.MustCompile(`Content-Length: \d+\r\n\r\n`)

// published diagnostics found in captured output: list of {uri, diagnostics (sorted)}
func publishedOf(out string) []any {
	res := []any{}
	for _, body := range clRe.Split(out, -1) {
		body = strings.TrimSpace(body)
		if body == "" {
			continue
		}
		var msg struct {
			Method string `json:"method"`
			Params struct {
				URI         string            `json:"uri"`
				Diagnostics []json.RawMessage `json:"diagnostics"`
			} `json:"params"`
		}
		if err := json.Unmarshal([]byte(body), &msg); err != nil {
			res = append(res, J{"uri": "?", "diags": []string{"unparsable: " + body}})
			continue
		}
		ds := []string{}
		for _, d := range msg.Params.Diagnostics {
			ds = append(ds, string(d))
		}
		sort.Strings(ds)
		res = append(res, J{"uri": msg.Params.URI, "method": msg.Method, "diags": ds})
	}
	return res
}

func normReply(v any) string {
	b, err := json.Marshal(v)
	if err != nil {
		return "<marshal error>"
	}
	// symbol lists are unordered
	var arr []json.RawMessage
	if json.Unmarshal(b, &arr) == nil && arr != nil {
		ss := []string{}
		for _, x := range arr {
			ss = append(ss, string(x))
		}
		sort.Strings(ss)
		return "[" + strings.Join(ss, ",") + "]"
	}
	return string(b)
}

type lspOp struct {
	Op     string `json:"op"`
	U      int    `json:"u"`
	Ts     []int  `json:"ts"`
	P      int    `json:"p"`
	Latest int    `json:"latest"`
	V      int    `json:"v"` // the client's version number of the document (Lsp.tla: 1 at every (re-)open, + 1 per change); 0 = not given
}

func verOr(v, dflt int) int {
	if v > 0 {
		return v
	}
	return dflt
}

func uriOf(u int) string { return fmt.Sprintf("file:///doc%d.num", u) }

// what a fresh ANALYSIS of a text gives, in the shape of the published diagnostics (sorted)
func analysisDiags(text string) (out []string, panicMsg string) {
	defer func() {
		if r := recover(); r != nil {
			panicMsg = oneLine(fmt.Sprint(r))
		}
	}()
	res := analysis.CheckSource(text)
	for _, d := range res.Diagnostics {
		b, _ := json.Marshal(J{"range": J{"start": J{"line": d.Range.Start.Line, "character": d.Range.Start.Character}, "end": J{"line": d.Range.End.Line, "character": d.Range.End.Character}},
			"severity": int(d.Kind.Severity()), "message": d.Kind.Message()})
		out = append(out, string(b))
	}
	sort.Strings(out)
	return out, ""
}

// the published diagnostics reduced to (range, severity, message), sorted
func publishedCore(pub []any) []string {
	out := []string{}
	for _, p := range pub {
		pj, _ := p.(J)
		ds, _ := pj["diags"].([]string)
		for _, d := range ds {
			var x struct {
				Range    lspRange `json:"range"`
				Severity int      `json:"severity"`
				Message  string   `json:"message"`
			}
			if json.Unmarshal([]byte(d), &x) != nil {
				out = append(out, "unparsable "+d)
				continue
			}
			b, _ := json.Marshal(J{"range": J{"start": J{"line": x.Range.Start.Line, "character": x.Range.Start.Character}, "end": J{"line": x.Range.End.Line, "character": x.Range.End.Character}},
				"severity": x.Severity, "message": x.Message})
			out = append(out, string(b))
		}
	}
	sort.Strings(out)
	return out
}

func applyOp(st *lsp.State, op lspOp) (reply string, published []any, panicMsg string) {
	var r any
	out, pm := capture(func() {
		td := J{"uri": uriOf(op.U)}
		switch op.Op {
		case "open":
			r = lsp.Handle(lspReq("textDocument/didOpen", J{"textDocument": J{"uri": uriOf(op.U), "languageId": "numscript", "version": verOr(op.V, 1), "text": lspTexts[op.Ts[0]]}}), st)
		case "change":
			cs := []any{}
			for _, t := range op.Ts {
				cs = append(cs, J{"text": lspTexts[t]})
			}
			r = lsp.Handle(lspReq("textDocument/didChange", J{"textDocument": J{"uri": uriOf(op.U), "version": verOr(op.V, 2)}, "contentChanges": cs}), st)
		case "hover":
			p := lspProbes[op.P]
			r = lsp.Handle(lspReq("textDocument/hover", J{"textDocument": td, "position": J{"line": p[0], "character": p[1]}}), st)
		case "definition":
			p := lspProbes[op.P]
			r = lsp.Handle(lspReq("textDocument/definition", J{"textDocument": td, "position": J{"line": p[0], "character": p[1]}}), st)
		case "symbols":
			r = lsp.Handle(lspReq("textDocument/documentSymbol", J{"textDocument": td}), st)
		case "other":
			if op.P == 1 {
				r = lsp.Handle(lspReq("initialize", J{"processId": 1, "rootUri": nil, "capabilities": J{}}), st)
			} else {
				r = lsp.Handle(lspReq("textDocument/didSave", J{"textDocument": td, "text": "send [USD 1] ("}), st)
			}
		}
	})
	if pm != "" {
		return "", nil, pm
	}
	return normReply(r), publishedOf(out), ""
}

// vh lsp-check <histories.ndjson> <out.ndjson>
func cmdLspCheck(args []string) {
	if len(args) != 2 {
		die(2, "usage: vh lsp-check <histories> <out>")
	}
	lw := newLineWriter(args[1])
	n, steps, nontriv := 0, 0, 0
	seen := map[string]bool{}
	var samples []any
	readLines(args[0], func(b []byte) {
		if seen[string(b)] {
			return
		}
		seen[string(b)] = true
		var hist []lspOp
		if err := json.Unmarshal(b, &hist); err != nil {
			die(2, "bad history: %v", err)
		}
		for set := range lspTextSets {
		lspTexts, lspProbes = lspTextSets[set], lspProbeSets[set]
		long := lsp.InitialState()
		res := []any{}
		stale := false
		for _, op := range hist {
			rl, pl, pm := applyOp(&long, op)
			// the fresh server: only the latest text of that document
			fresh := lsp.InitialState()
			var pubOpen []any
			pmf := ""
			if op.Latest != 0 {
				_, pubOpen, pmf = applyOp(&fresh, lspOp{Op: "open", U: op.U, Ts: []int{op.Latest}})
			}
			var rf string
			var pf []any
			if op.Op == "open" || op.Op == "change" {
				rf, pf = "null", pubOpen
			} else if pmf == "" {
				rf, pf, pmf = applyOp(&fresh, op)
			}
			same := rl == rf && fmt.Sprint(pl) == fmt.Sprint(pf)
			// ... and the published set must be what a fresh analysis of the latest text gives (range, severity, message)
			if (op.Op == "open" || op.Op == "change") && pm == "" && op.Latest != 0 {
				exp, apm := analysisDiags(lspTexts[op.Latest])
				if apm == "" && fmt.Sprint(publishedCore(pl)) != fmt.Sprint(exp) {
					same = false
					rf = "analysis: " + fmt.Sprint(exp)
				}
				wantURI := uriOf(op.U)
				for _, p := range pl {
					if pj, ok := p.(J); ok && pj["uri"] != wantURI {
						same = false
					}
				}
			}
			res = append(res, J{"op": op.Op, "u": op.U, "latest": op.Latest, "same": same, "panic": pm, "freshpanic": pmf, "long": rl, "fresh": rf,
				"longpub": fmt.Sprint(pl), "freshpub": fmt.Sprint(pf)})
			steps++
			if op.Latest != 0 && (op.Op == "hover" || op.Op == "definition" || op.Op == "symbols") {
				stale = true
			}
		}
		lw.write(J{"e": "lsp", "n": n, "hist": hist, "steps": res, "textset": set})
		if stale {
			nontriv++
		}
		if len(samples) < 2 && n%1500 == 700 {
			samples = append(samples, J{"history": hist, "replies": res, "textset": set})
		}
		n++
		}
	})
	lw.close()
	printJSON(J{"cases": n, "steps": steps, "nontrivial": nontriv, "samples": samples})
}

// ---- navigation at every position -------------------------------------------------

var wordRe = regexp.MustCompile(`\$?[A-Za-z_][A-Za-z0-9_]*`)

type lspRange struct {
	Start struct{ Line, Character int } `json:"start"`
	End   struct{ Line, Character int } `json:"end"`
}

// vh nav-check <gen.ndjson> <out.ndjson>
func cmdNavCheck(args []string) {
	if len(args) != 2 {
		die(2, "usage: vh nav-check <gen> <out>")
	}
	lw := newLineWriter(args[1])
	n, positions, hits := 0, 0, 0
	var samples []any
	readLines(args[0], func(b []byte) {
		var g chkGenLine
		if err := json.Unmarshal(b, &g); err != nil {
			die(2, "bad gen line: %v", err)
		}
		// every script as printed, and once more without its final line break(s): no position of the expected table moves
		texts := []string{g.Text}
		if t := strings.TrimRight(g.Text, "\r\n"); t != g.Text && t != "" {
			texts = append(texts, t)
		}
		for _, gText := range texts {
		st := lsp.InitialState()
		uri := "file:///nav.num"
		probes := []any{}
		_, pm := capture(func() {
			lsp.Handle(lspReq("textDocument/didOpen", J{"textDocument": J{"uri": uri, "languageId": "numscript", "version": 1, "text": gText}}), &st)
			lines := strings.Split(gText, "\n")
			for li, l := range lines {
				for ch := 0; ch <= len([]rune(l)); ch++ {
					pos := J{"line": li, "character": ch}
					h := lsp.Handle(lspReq("textDocument/hover", J{"textDocument": J{"uri": uri}, "position": pos}), &st)
					d := lsp.Handle(lspReq("textDocument/definition", J{"textDocument": J{"uri": uri}, "position": pos}), &st)
					// <<line, char, hover present, words of the hover text, hover range, definition range>>
					// the wording of the hover is not pinned: only which names it mentions
					rec := []any{li, ch, 0, []any{}, "", -1, -1, -1, -1, -1, -1, -1, -1}
					hb, _ := json.Marshal(h)
					if string(hb) != "null" {
						var hv struct {
							Contents struct{ Value string } `json:"contents"`
							Range    lspRange               `json:"range"`
						}
						json.Unmarshal(hb, &hv)
						words := []any{}
						for _, w := range wordRe.FindAllString(hv.Contents.Value, -1) {
							words = append(words, w)
						}
						rec[2], rec[3] = 1, words
						rec[5], rec[6], rec[7], rec[8] = hv.Range.Start.Line, hv.Range.Start.Character, hv.Range.End.Line, hv.Range.End.Character
						hits++
					}
					db, _ := json.Marshal(d)
					if string(db) != "null" {
						var dv struct {
							URI   string   `json:"uri"`
							Range lspRange `json:"range"`
						}
						json.Unmarshal(db, &dv)
						rec[9], rec[10], rec[11], rec[12] = dv.Range.Start.Line, dv.Range.Start.Character, dv.Range.End.Line, dv.Range.End.Character
						if dv.URI != uri {
							rec[9] = -2
						}
					}
					probes = append(probes, rec)
					positions++
				}
			}
		})
		nodes := make([]any, len(g.Nodes))
		for i, nd := range g.Nodes {
			normNums(nd)
			nodes[i] = nd
		}
		lw.write(J{"e": "nav", "id": g.ID, "n": n, "text": gText, "expnodes": nodes, "probes": probes, "panic": pm})
		if len(samples) < 1 && len(probes) > 50 {
			samples = append(samples, J{"text": gText, "positions_probed": len(probes)})
		}
		n++
		}
	})
	lw.close()
	printJSON(J{"cases": n, "positions": positions, "nontrivial": hits, "samples": samples})
}
