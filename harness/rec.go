package main

// Replay of TLC-generated sender/receiver lists into the real interpreter.Reconcile.

import (
	"bufio"
	"encoding/json"
	"fmt"
	"math/big"
	"os"

	"github.com/formancehq/numscript/internal/interpreter"
)

type recInput struct {
	Snd [][]any `json:"snd"`
	Rcv [][]any `json:"rcv"`
}

// factors of the scaling lift: pairing only compares, subtracts and adds, so a list multiplied by U gives U times the postings.
// 2^60 .. 2^62 put small multiples on both sides of 2^63 and 2^64 (the sizes at which a machine word stops being enough)
var recFactors = []string{"1152921504606846976", "2305843009213693952", "4611686018427387904", "9223372036854775808", "18446744073709551616",
	"4294967296", "3074457345618258603", "1000000000000000000000000000000"}

func runReconcile(in recInput) (post []interpreter.Posting, st string) {
	return runReconcileScaled(in, big.NewInt(1))
}

func runReconcileScaled(in recInput, U *big.Int) (post []interpreter.Posting, st string) {
	defer func() {
		if r := recover(); r != nil {
			st = "panic"
			post = nil
		}
	}()
	var snd []interpreter.Sender
	var rcv []interpreter.Receiver
	for _, s := range in.Snd {
		snd = append(snd, interpreter.Sender{Name: s[0].(string), Monetary: new(big.Int).Mul(U, big.NewInt(int64(s[1].(float64))))})
	}
	for _, r := range in.Rcv {
		rcv = append(rcv, interpreter.Receiver{Name: r[0].(string), Monetary: new(big.Int).Mul(U, big.NewInt(int64(r[1].(float64))))})
	}
	ps, err := interpreter.Reconcile("COIN", snd, rcv)
	if err != nil {
		return nil, errClass(err)
	}
	return ps, "ok"
}

// vh rec <gen.ndjson> <out.ndjson>
func cmdRec(args []string) {
	if len(args) != 2 {
		die(2, "usage: vh rec <in> <out>")
	}
	f, err := os.Open(args[0])
	if err != nil {
		die(2, "%v", err)
	}
	defer f.Close()
	lw := newLineWriter(args[1])
	sc := bufio.NewScanner(f)
	sc.Buffer(make([]byte, 1<<20), 1<<26)
	n, nontriv := 0, 0
	var samples []any
	for sc.Scan() {
		var in recInput
		if err := json.Unmarshal(sc.Bytes(), &in); err != nil {
			die(2, "bad input line: %v", err)
		}
		post, st := runReconcile(in)
		// the same lists multiplied by each huge factor (real against real; the small run is the one TLC judges)
		scaled, badFactor := true, ""
		bigJ := []any{}
		bst := st
		for _, f := range recFactors {
			U, _ := new(big.Int).SetString(f, 10)
			bpost, bst1 := runReconcileScaled(in, U)
			ok := bst1 == st && len(bpost) == len(post)
			for j, bp := range bpost {
				if ok && (bp.Source != post[j].Source || bp.Destination != post[j].Destination || bp.Amount.Cmp(new(big.Int).Mul(U, post[j].Amount)) != 0) {
					ok = false
				}
			}
			if !ok && scaled {
				scaled, badFactor, bst = false, f, bst1
				for _, bp := range bpost {
					bigJ = append(bigJ, []any{bp.Source, bp.Destination, bp.Amount.String(), bp.Asset})
				}
			}
		}
		lw.write(J{"e": "rec", "id": n, "snd": in.Snd, "rcv": in.Rcv, "post": postingsToJSON(post), "st": st, "factor": badFactor, "scaled": scaled, "bigpost": bigJ, "bigst": bst})
		if len(post) >= 2 {
			nontriv++
			if len(samples) < 3 && len(post) >= 3 {
				samples = append(samples, J{"senders": in.Snd, "receivers": in.Rcv, "postings": postingsToJSON(post)})
			}
		}
		n++
	}
	lw.close()
	printJSON(J{"cases": n, "nontrivial": nontriv, "samples": samples})
	_ = fmt.Sprint
}
