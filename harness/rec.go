package main

// Replay of TLC-generated sender/receiver lists into the real interpreter.Reconcile.

import (
	"bufio"
	"encoding/json"
	"fmt"
	"math/big"
	"os"

	"github.com/formancehq/numscript/internal/interpreter"
)

type recInput struct {
	Snd [][]any `json:"snd"`
	Rcv [][]any `json:"rcv"`
}

func runReconcile(in recInput) (post []interpreter.Posting, st string) {
	defer func() {
		if r := recover(); r != nil {
			st = "panic"
			post = nil
		}
	}()
	var snd []interpreter.Sender
	var rcv []interpreter.Receiver
	for _, s := range in.Snd {
		snd = append(snd, interpreter.Sender{Name: s[0].(string), Monetary: big.NewInt(int64(s[1].(float64)))})
	}
	for _, r := range in.Rcv {
		rcv = append(rcv, interpreter.Receiver{Name: r[0].(string), Monetary: big.NewInt(int64(r[1].(float64)))})
	}
	ps, err := interpreter.Reconcile("COIN", snd, rcv)
	if err != nil {
		return nil, errClass(err)
	}
	return ps, "ok"
}

// vh rec <gen.ndjson> <out.ndjson>
func cmdRec(args []string) {
	if len(args) != 2 {
		die(2, "usage: vh rec <in> <out>")
	}
	f, err := os.Open(args[0])
	if err != nil {
		die(2, "%v", err)
	}
	defer f.Close()
	lw := newLineWriter(args[1])
	sc := bufio.NewScanner(f)
	sc.Buffer(make([]byte, 1<<20), 1<<26)
	n, nontriv := 0, 0
	var samples []any
	for sc.Scan() {
		var in recInput
		if err := json.Unmarshal(sc.Bytes(), &in); err != nil {
			die(2, "bad input line: %v", err)
		}
		post, st := runReconcile(in)
		lw.write(J{"e": "rec", "id": n, "snd": in.Snd, "rcv": in.Rcv, "post": postingsToJSON(post), "st": st})
		if len(post) >= 2 {
			nontriv++
			if len(samples) < 3 && len(post) >= 3 {
				samples = append(samples, J{"senders": in.Snd, "receivers": in.Rcv, "postings": postingsToJSON(post)})
			}
		}
		n++
	}
	lw.close()
	printJSON(J{"cases": n, "nontrivial": nontriv, "samples": samples})
	_ = fmt.Sprint
}
