package main

// Relational executions for C08 / C09: whole run vs. prefix and suffix runs,
// the suffix on the balances TLC printed for the split point.

import (
	"bufio"
	"context"
	"encoding/json"
	"os"

	"github.com/formancehq/numscript"
)

type splitRec struct {
	ID    int     `json:"id"`
	K     int     `json:"k"`
	After string  `json:"after"`
	Vis   [][]any `json:"vis"`
}

func readLines(path string, f func([]byte)) {
	fh, err := os.Open(path)
	if err != nil {
		die(2, "%v", err)
	}
	defer fh.Close()
	sc := bufio.NewScanner(fh)
	sc.Buffer(make([]byte, 1<<20), 1<<27)
	for sc.Scan() {
		if len(sc.Bytes()) > 0 {
			b := make([]byte, len(sc.Bytes()))
			copy(b, sc.Bytes())
			f(b)
		}
	}
}

func visToBal(vis [][]any) map[string]map[string]int64 {
	out := map[string]map[string]int64{}
	for _, t := range vis {
		a, as := t[0].(string), t[1].(string)
		if out[a] == nil {
			out[a] = map[string]int64{}
		}
		out[a][as] = int64(t[2].(float64))
	}
	return out
}

func runText(text string, vars map[string]string, bal map[string]map[string]int64, meta map[string]map[string]string, flagOvd bool) J {
	var p numscript.ParseResult
	ok := true
	func() {
		defer func() {
			if recover() != nil {
				ok = false
			}
		}()
		p = numscript.Parse(text)
	}()
	if !ok || len(p.GetParsingErrors()) > 0 {
		return J{"st": "unparsable", "post": []any{}, "txmeta": J{}, "acctmeta": J{}}
	}
	o := runParsed(context.Background(), p, copyVars(vars), copyStore{bal: bal, meta: meta}, flagOvd)
	j := o.toJSON()
	delete(j, "e")
	return j
}

// vh split <mode c08|c09> <trace.ndjson> <splits.ndjson> <out.ndjson>
func cmdSplit(args []string) {
	if len(args) != 4 {
		die(2, "usage: vh split <c08|c09> <trace> <splits> <out>")
	}
	mode := args[0]
	splits := map[int]map[int]splitRec{}
	readLines(args[2], func(b []byte) {
		var s splitRec
		if err := json.Unmarshal(b, &s); err != nil {
			die(2, "bad split line: %v", err)
		}
		if splits[s.ID] == nil {
			splits[s.ID] = map[int]splitRec{}
		}
		splits[s.ID][s.K] = s
	})
	lw := newLineWriter(args[3])
	var cur J
	nsplit, ncases, nontriv := 0, 0, 0
	var samples []any
	emit := func(c J, whole J) {
		id := int(c["id"].(float64))
		stmts := asList(c["stmts"])
		vars := asList(c["vars"])
		normNums(c["stmts"])
		normNums(c["vars"])
		rawvars := map[string]string{}
		for k, v := range c["rawvars"].(J) {
			rawvars[k] = v.(string)
		}
		meta := map[string]map[string]string{}
		for a, m := range c["meta"].(J) {
			meta[a] = map[string]string{}
			for k, v := range m.(J) {
				meta[a][k] = v.(string)
			}
		}
		bal0 := map[string]map[string]int64{}
		for a, m := range c["bal"].(J) {
			bal0[a] = map[string]int64{}
			for as, v := range m.(J) {
				bal0[a][as] = int64(v.(float64))
			}
		}
		flag, _ := c["flagovd"].(bool)
		used := false
		for k := 1; k < len(stmts); k++ {
			sp, ok := splits[id][k]
			if !ok {
				continue
			}
			if mode == "c08" && sp.After != "save" {
				continue
			}
			pre := runText(printProgram(vars, stmts[:k]), rawvars, bal0, meta, flag)
			suf := runText(printProgram(vars, stmts[k:]), rawvars, visToBal(sp.Vis), meta, flag)
			line := J{"e": "split", "id": id, "k": k, "after": sp.After, "whole": whole, "prefix": pre, "suffix": suf, "hasctl": false,
				"cwhole": J{}, "cprefix": J{}, "csuffix": J{}}
			if mode == "c08" {
				if ctl, ok := splits[id][k-1]; ok {
					without := append(append([]any{}, stmts[:k-1]...), stmts[k:]...)
					line["hasctl"] = true
					line["cwhole"] = runText(printProgram(vars, without), rawvars, bal0, meta, flag)
					line["cprefix"] = runText(printProgram(vars, stmts[:k-1]), rawvars, bal0, meta, flag)
					line["csuffix"] = runText(printProgram(vars, stmts[k:]), rawvars, visToBal(ctl.Vis), meta, flag)
				}
			}
			lw.write(line)
			nsplit++
			used = true
			if whole["st"] == "ok" && len(asList(suf["post"])) > 0 && len(asList(pre["post"])) > 0 || (mode == "c08" && len(asList(suf["post"])) > 0) {
				nontriv++
				if len(samples) < 3 {
					samples = append(samples, J{"script": c["text"], "split_after_statement": k, "state_printed_by_TLC": sp.Vis,
						"whole": whole["post"], "prefix": pre["post"], "suffix": suf["post"]})
				}
			}
		}
		if used {
			ncases++
		}
	}
	readLines(args[1], func(b []byte) {
		var l J
		if err := json.Unmarshal(b, &l); err != nil {
			die(2, "bad trace line: %v", err)
		}
		switch l["e"] {
		case "case":
			cur = l
		case "outcome":
			whole := J{"st": l["st"], "post": l["post"], "txmeta": l["txmeta"], "acctmeta": l["acctmeta"]}
			emit(cur, whole)
		}
	})
	lw.close()
	printJSON(J{"cases": ncases, "splits": nsplit, "nontrivial": nontriv, "samples": samples})
}
