package main

// C16 / C17 corpora: statically valid typed programs and their name / type-breaking edits.

import (
	"encoding/json"
	"fmt"
	"math/rand"
)

func staticCfg() genCfg {
	c := corpusCfg("mixed")
	c.name = "static"
	c.unspecified = false
	c.mismatchRate = 0
	c.maxStmts = 3
	c.maxVars = 5
	c.sendAllRate = 3
	c.origins = true
	c.varBounds = true
	c.deepInfix = true
	c.accts = []string{"a", "b", "c", "world:fees", "users:001"}
	return c
}

func deepCopy(x any) any {
	b, _ := json.Marshal(x)
	var out any
	json.Unmarshal(b, &out)
	normNums(out)
	return out
}

func collectVarUses(x any, out *[]J) {
	switch v := x.(type) {
	case J:
		if v["k"] == "var" {
			*out = append(*out, v)
		}
		for _, k := range sortedKeys(v) {
			collectVarUses(v[k], out)
		}
	case []any:
		for _, y := range v {
			collectVarUses(y, out)
		}
	}
}

func nameEdits(r *rand.Rand, c *Case) int {
	n := 0
	for k := r.Intn(3); k > 0; k-- {
		switch r.Intn(5) {
		case 4: // move a declaration to the end (a use inside a later origin now precedes its declaration)
			if len(c.Decls) >= 2 {
				// prefer a declaration that some origin uses
				idx := r.Intn(len(c.Decls))
				for i, d := range c.Decls {
					var uses []J
					for _, d2 := range c.Decls {
						collectVarUses(d2.(J)["origin"], &uses)
					}
					for _, u := range uses {
						if u["name"] == d.(J)["name"] {
							idx = i
						}
					}
				}
				d := c.Decls[idx]
				c.Decls = append(append(append([]any{}, c.Decls[:idx]...), c.Decls[idx+1:]...), d)
				n++
			}
		case 0: // delete a declaration
			if len(c.Decls) > 0 {
				i := r.Intn(len(c.Decls))
				c.Decls = append(append([]any{}, c.Decls[:i]...), c.Decls[i+1:]...)
				n++
			}
		case 1: // duplicate a declaration (possibly with another type)
			if len(c.Decls) > 0 {
				d := deepCopy(pick(r, c.Decls)).(J)
				if r.Intn(2) == 0 {
					d["type"] = pick(r, []string{"account", "asset", "number", "monetary", "portion", "string"})
				}
				d["origin"] = J{"k": "none"}
				i := r.Intn(len(c.Decls) + 1)
				c.Decls = append(append(append([]any{}, c.Decls[:i]...), d), c.Decls[i:]...)
				n++
			}
		case 2: // rename a declaration
			if len(c.Decls) > 0 {
				d := pick(r, c.Decls).(J)
				d["name"] = d["name"].(string) + "_r"
				n++
			}
		default: // rename a use
			var uses []J
			collectVarUses(c.Stmts, &uses)
			for _, d := range c.Decls {
				collectVarUses(d.(J)["origin"], &uses)
			}
			if len(uses) > 0 {
				u := pick(r, uses)
				if r.Intn(2) == 0 || len(c.Decls) == 0 {
					u["name"] = "nope"
				} else {
					u["name"] = pick(r, c.Decls).(J)["name"]
				}
				n++
			}
		}
	}
	return n
}

// vh chk-trees <seed> <n> <mode names|types|plain> <out.ndjson>
func cmdChkTrees(args []string) {
	if len(args) != 4 {
		die(2, "usage: vh chk-trees <seed> <n> <mode> <out>")
	}
	seed, n := argInt(args[0]), argInt(args[1])
	mode := fmt.Sprint(args[2])
	r := rand.New(rand.NewSource(int64(seed)*1000003 + 29))
	lw := newLineWriter(args[3])
	cfg := staticCfg()
	for i := 0; i < n; i++ {
		var c *Case
		edits := 0
		if mode == "3" || mode == "types" {
			c = genIllCase(r, i)
			edits = 1
			if i%4 == 0 {
				edits += nameEdits(r, c)
				fixMetaVals(c)
			}
		} else {
			c = genCase(r, cfg, i)
			if (mode == "2" || mode == "names") && i%3 != 0 {
				edits = nameEdits(r, c)
			}
		}
		if (mode == "3" || mode == "types") && i%3 == 1 {
			// every declared variable is first used where any type fits (the value of a transaction-metadata entry), before the
			// statements that need it to have one particular type: a verdict about a variable must be taken use by use
			pre := []any{}
			for _, d := range c.Decls {
				name := fmt.Sprint(d.(J)["name"])
				pre = append(pre, J{"k": "call", "name": "set_tx_meta", "args": jl(eStr("pre_"+name), eVar(name))})
			}
			c.Stmts = append(pre, c.Stmts...)
		}
		if c.Decls == nil {
			c.Decls = []any{}
		}
		lw.write(J{"id": i, "vars": c.Decls, "stmts": c.Stmts, "emptyvars": false, "edits": edits,
			"rawvars": c.RawVars, "bal": c.Bal, "meta": c.Meta, "flagovd": c.FlagOvd, "varvals": c.VarVals})
	}
	lw.close()
	printJSON(J{"trees": n})
}

type chkGenLine struct {
	ID    int     `json:"id"`
	Text  string  `json:"text"`
	Valid bool    `json:"valid"`
	Names [][]any `json:"names"`
	Maybe [][]any `json:"maybe"`
	Nodes [][]any `json:"nodes"`
}

// vh chk-check <gen.ndjson> <out.ndjson>: run the real checker on the texts printed by Syntax.tla
func cmdChkCheck(args []string) {
	if len(args) != 2 {
		die(2, "usage: vh chk-check <gen> <out>")
	}
	lw := newLineWriter(args[1])
	n, nvalid, nnames := 0, 0, 0
	var samples []any
	readLines(args[0], func(b []byte) {
		var g chkGenLine
		if err := json.Unmarshal(b, &g); err != nil {
			die(2, "bad gen line: %v", err)
		}
		obs := frontObserve(g.Text, true)
		names := make([]any, len(g.Names))
		for i, x := range g.Names {
			normNums(x)
			names[i] = x
		}
		delete(obs, "nodes")
		delete(obs, "flat")
		maybe := make([]any, len(g.Maybe))
		for i, x := range g.Maybe {
			normNums(x)
			maybe[i] = x
		}
		lw.write(J{"e": "chk", "id": g.ID, "n": n, "text": g.Text, "valid": g.Valid, "expnames": names, "maybe": maybe, "obs": obs})
		if g.Valid {
			nvalid++
		}
		if len(g.Names) > 0 {
			nnames++
			if len(samples) < 2 {
				samples = append(samples, J{"text": g.Text, "expected_name_diagnostics": names, "observed": obs["diags"]})
			}
		}
		n++
	})
	lw.close()
	printJSON(J{"cases": n, "valid": nvalid, "with_name_diagnostics": nnames, "samples": samples})
}

// vh c17-check <gen.ndjson> <trees.ndjson> <out.ndjson>: check AND run every text
func cmdC17Check(args []string) {
	if len(args) != 3 {
		die(2, "usage: vh c17-check <gen> <trees> <out>")
	}
	trees := map[int]J{}
	readLines(args[1], func(b []byte) {
		var t J
		if err := json.Unmarshal(b, &t); err != nil {
			die(2, "%v", err)
		}
		trees[int(t["id"].(float64))] = t
	})
	lw := newLineWriter(args[2])
	n, clean, cleanfail := 0, 0, 0
	var samples []any
	seen := map[int]bool{}
	readLines(args[0], func(b []byte) {
		var g chkGenLine
		if err := json.Unmarshal(b, &g); err != nil {
			die(2, "bad gen line: %v", err)
		}
		if seen[g.ID] {
			return // one layout per tree is enough here
		}
		seen[g.ID] = true
		t := trees[g.ID]
		raw, _ := json.Marshal(t)
		c := caseFromJSON(raw)
		c.Text = g.Text
		obs := frontObserve(g.Text, true)
		delete(obs, "nodes")
		delete(obs, "flat")
		er := execCase(c)
		run := "dropped"
		if er.dropped == "" {
			run = er.outcome.St
		}
		// are the supplied variable values of the declared types?
		typed := true
		for _, d := range asList(t["vars"]) {
			dj := d.(J)
			if dj["origin"].(J)["k"] == "none" {
				val, _ := c.VarVals[dj["name"].(string)]
				tt, _ := val["t"].(string)
				want := map[string]string{"monetary": "mon", "account": "acct", "asset": "asset", "number": "num", "portion": "portion", "string": "str"}[fmt.Sprint(dj["type"])]
				if tt != want && want != "" {
					typed = false
				}
			} else if dj["origin"].(J)["name"] == "meta" {
				val, _ := c.VarVals[dj["name"].(string)]
				tt, _ := val["t"].(string)
				if tt == "err" {
					typed = false
				}
			}
		}
		nerr, ndiag := 0, 0
		for _, d := range asList(obs["diags"]) {
			ndiag++
			if d.([]any)[1] == 1 {
				nerr++
			}
		}
		worldVar := false
		for _, v := range c.VarVals {
			if v["t"] == "acct" && v["v"] == "world" {
				worldVar = true
			}
		}
		lw.write(J{"e": "c17", "id": g.ID, "n": n, "text": g.Text, "valid": g.Valid, "obs": obs, "run": run, "typed": typed, "nerr": nerr, "ndiag": ndiag, "worldvar": worldVar,
			"rawvars": c.RawVars, "bal": c.Bal, "meta": c.Meta, "flagovd": c.FlagOvd, "varvals": c.VarVals})
		if nerr == 0 {
			clean++
			if run != "ok" {
				cleanfail++
			}
			if len(samples) < 2 && run != "ok" {
				samples = append(samples, J{"text": g.Text, "diagnostics": obs["diags"], "run": run})
			}
		}
		n++
	})
	lw.close()
	printJSON(J{"cases": n, "clean_check": clean, "clean_but_failing_at_run_time": cleanfail, "samples": samples})
}
