package main

// Execute a case on the real interpreter and record what is observable.

import (
	"context"
	"fmt"
	"math/big"
	"reflect"
	"strings"
	"sync"

	"github.com/formancehq/numscript"
	"github.com/formancehq/numscript/internal/interpreter"
	"github.com/formancehq/numscript/internal/parser"
)

const clampAmt = 100000000 // amounts beyond this are recorded as +-clampAmt (TLC has 32-bit integers)

func amtToJSON(x *big.Int) any {
	if x == nil {
		return 0
	}
	if x.IsInt64() {
		v := x.Int64()
		if v < clampAmt && v > -clampAmt {
			return int(v)
		}
	}
	if x.Sign() < 0 {
		return -clampAmt
	}
	return clampAmt
}

func postingsToJSON(ps []interpreter.Posting) []any {
	out := []any{}
	for _, p := range ps {
		out = append(out, []any{p.Source, p.Destination, amtToJSON(p.Amount), p.Asset})
	}
	return out
}

func errClass(err error) string {
	if err == nil {
		return "ok"
	}
	t := reflect.TypeOf(err)
	for t.Kind() == reflect.Ptr {
		t = t.Elem()
	}
	return t.Name()
}

// ---- hook plumbing -------------------------------------------------------

type ctxKey struct{}

// recorder receives the hook events of one run (identified through the context)
type recorder struct {
	mu     sync.Mutex
	events []J
	gate   func(ev string) // optional scheduling gate (blocks)
	ident  []J             // identity facts of "cache" events
}

func (r *recorder) add(e J) {
	r.mu.Lock()
	r.events = append(r.events, e)
	r.mu.Unlock()
}

func hookDispatch(ctx context.Context, ev string, args ...any) {
	rec, _ := ctx.Value(ctxKey{}).(*recorder)
	if rec == nil {
		return
	}
	switch ev {
	case "stmt":
		var ps []interpreter.Posting
		if len(args) > 1 {
			ps, _ = args[1].([]interpreter.Posting)
		}
		cls := "ok"
		if len(args) > 2 && args[2] != nil {
			if e, ok := args[2].(error); ok && e != nil {
				cls = errClass(e)
			}
		}
		kind := ""
		if len(args) > 0 {
			switch args[0].(type) {
			case *parser.SendStatement:
				kind = "send"
			case *parser.SaveStatement:
				kind = "save"
			case *parser.FnCall:
				kind = "call"
			}
		}
		rec.add(J{"e": "stmt", "kind": kind, "post": postingsToJSON(ps), "st": cls})
	case "applied":
		if len(args) > 0 {
			if b, ok := args[0].(interpreter.Balances); ok {
				rec.add(J{"e": "applied", "bal": balancesToJSON(b)})
			}
		}
	case "fetch_pre":
		rec.add(J{"e": "fetch_pre"})
	case "cache":
		if len(args) > 1 {
			ret, _ := args[0].(interpreter.Balances)
			cache, _ := args[1].(interpreter.Balances)
			rec.add(J{"e": "cache", "sameOuter": sameMap(ret, cache), "sharedInner": sharedInner(ret, cache), "sharedInt": sharedInt(ret, cache)})
		}
	}
	if rec.gate != nil {
		rec.gate(ev)
	}
}

func sameMap(a, b interpreter.Balances) bool {
	if a == nil || b == nil {
		return false
	}
	return reflect.ValueOf(a).Pointer() == reflect.ValueOf(b).Pointer()
}
func sharedInner(a, b interpreter.Balances) bool {
	for k, ia := range a {
		if ib, ok := b[k]; ok && ia != nil && ib != nil && reflect.ValueOf(ia).Pointer() == reflect.ValueOf(ib).Pointer() {
			return true
		}
	}
	return false
}
func sharedInt(a, b interpreter.Balances) bool {
	for k, ia := range a {
		for as, x := range ia {
			if ib, ok := b[k]; ok {
				if y, ok := ib[as]; ok && x != nil && x == y {
					return true
				}
			}
		}
	}
	return false
}

func balancesToJSON(b interpreter.Balances) J {
	out := J{}
	for a, m := range b {
		mm := J{}
		for as, v := range m {
			mm[as] = amtToJSON(v)
		}
		out[a] = mm
	}
	return out
}

// ---- stores ----------------------------------------------------------------

// copyStore answers every query with a fresh deep copy of its whole content
// (so that nothing the interpreter does to a returned map can leak anywhere).
type copyStore struct {
	bal  map[string]map[string]int64
	meta map[string]map[string]string
}

func (s copyStore) GetBalances(context.Context, interpreter.BalanceQuery) (interpreter.Balances, error) {
	return mkBalances(s.bal), nil
}
func (s copyStore) GetAccountsMetadata(context.Context, interpreter.MetadataQuery) (interpreter.AccountsMetadata, error) {
	return mkMeta(s.meta), nil
}

// caseStore: the semantic properties hold whatever conforming store serves the balances, so the corpora are run
// against all of them in turn: the whole content, exactly what was asked, what was asked minus the zero balances,
// and the repository's own StaticStore.
func caseStore(id int, bal map[string]map[string]int64, meta map[string]map[string]string) interpreter.Store {
	switch id % 4 {
	case 1:
		return &scriptStore{bal: bal, meta: meta, modes: []string{"exact"}}
	case 2:
		return &scriptStore{bal: bal, meta: meta, modes: []string{"sparse"}}
	case 3:
		return interpreter.StaticStore{Balances: mkBalances(bal), Meta: mkMeta(meta)}
	}
	return copyStore{bal: bal, meta: meta}
}

func mkBalances(b map[string]map[string]int64) interpreter.Balances {
	out := interpreter.Balances{}
	for a, m := range b {
		out[a] = interpreter.AccountBalance{}
		for as, v := range m {
			out[a][as] = big.NewInt(v)
		}
	}
	return out
}
func mkMeta(m map[string]map[string]string) interpreter.AccountsMetadata {
	out := interpreter.AccountsMetadata{}
	for a, mm := range m {
		out[a] = interpreter.AccountMetadata{}
		for k, v := range mm {
			out[a][k] = v
		}
	}
	return out
}

// ---- running ----------------------------------------------------------------

type Outcome struct {
	St       string // "ok", error class, or "panic"
	Msg      string
	Post     []interpreter.Posting
	TxMeta   map[string]string
	AcctMeta map[string]map[string]string
	Leak     bool // a non-empty result came back together with an error
}

func (o Outcome) toJSON() J {
	tx := J{}
	for k, v := range o.TxMeta {
		tx[k] = v
	}
	am := J{}
	for a, m := range o.AcctMeta {
		mm := J{}
		for k, v := range m {
			mm[k] = v
		}
		am[a] = mm
	}
	return J{"e": "outcome", "st": o.St, "post": postingsToJSON(o.Post), "txmeta": tx, "acctmeta": am, "leak": o.Leak}
}

func featureFlags(flagOvd bool) map[string]struct{} {
	if !flagOvd {
		return nil
	}
	return map[string]struct{}{interpreter.ExperimentalOverdraftFunctionFeatureFlag: {}}
}

// runParsed executes an already parsed script; never panics.
func runParsed(ctx context.Context, p numscript.ParseResult, vars map[string]string, store interpreter.Store, flagOvd bool) (out Outcome) {
	return runParsedFlags(ctx, p, vars, store, featureFlags(flagOvd))
}

// runParsedFlags: the same with an explicit flag set (nil = the plain Run entry point); never panics.
func runParsedFlags(ctx context.Context, p numscript.ParseResult, vars map[string]string, store interpreter.Store, flags map[string]struct{}) (out Outcome) {
	defer func() {
		if rec := recover(); rec != nil {
			out = Outcome{St: "panic", Msg: fmt.Sprint(rec)}
		}
	}()
	var res numscript.ExecutionResult
	var err numscript.InterpreterError
	if flags != nil {
		res, err = p.RunWithFeatureFlags(ctx, vars, store, flags)
	} else {
		res, err = p.Run(ctx, vars, store)
	}
	out.TxMeta = map[string]string{}
	out.AcctMeta = map[string]map[string]string{}
	if err != nil {
		out.St = errClass(err)
		out.Msg = err.Error()
		out.Leak = len(res.Postings) > 0 || len(res.Metadata) > 0 || len(res.AccountsMetadata) > 0
		return out
	}
	out.St = "ok"
	// a result must be usable by the caller: rendering every amount and value happens inside the recover scope
	for _, po := range res.Postings {
		if po.Amount != nil {
			_ = po.Amount.String()
		}
	}
	out.Post = res.Postings
	for k, v := range res.Metadata {
		out.TxMeta[k] = v.String()
	}
	for a, m := range res.AccountsMetadata {
		out.AcctMeta[a] = map[string]string{}
		for k, v := range m {
			out.AcctMeta[a][k] = v
		}
	}
	return out
}

type execResult struct {
	caseLine J
	events   []J
	outcome  Outcome
	dropped  string // non-empty: why this case cannot be used (generator/printer artefact)
}

func copyVars(m map[string]string) map[string]string {
	out := map[string]string{}
	for k, v := range m {
		out[k] = v
	}
	return out
}

// execCase parses and runs a case with a copying store and the statement hook.
func execCase(c *Case) execResult {
	var er execResult
	var p numscript.ParseResult
	func() {
		defer func() {
			if rec := recover(); rec != nil {
				er.dropped = "parser panic: " + fmt.Sprint(rec)
			}
		}()
		p = numscript.Parse(c.Text)
	}()
	if er.dropped != "" {
		return er
	}
	if errs := p.GetParsingErrors(); len(errs) > 0 {
		er.dropped = "parse error: " + errs[0].Msg
		return er
	}
	pr := parser.Parse(c.Text)
	vars, stmts, err := projProgram(pr.Value)
	if err != nil {
		er.dropped = "projection: " + err.Error()
		return er
	}
	for _, v := range vars {
		d := v.(J)
		val, ok := c.VarVals[d["name"].(string)]
		if !ok {
			er.dropped = "no value for variable " + d["name"].(string)
			return er
		}
		vv := J{}
		for k, x := range val {
			if k != "txt" {
				vv[k] = x
			}
		}
		d["val"] = vv
	}
	bal := J{}
	for a, m := range c.Bal {
		mm := J{}
		for as, v := range m {
			mm[as] = int(v)
		}
		bal[a] = mm
	}
	er.caseLine = J{"e": "case", "id": c.ID, "corpus": c.Corpus, "vars": vars, "stmts": stmts, "bal": bal,
		"flagovd": c.FlagOvd, "text": c.Text, "rawvars": c.RawVars, "meta": c.Meta, "varvals": c.VarVals}
	rec := &recorder{}
	ctx := context.WithValue(context.Background(), ctxKey{}, rec)
	er.outcome = runParsed(ctx, p, copyVars(c.RawVars), caseStore(c.ID, c.Bal, c.Meta), c.FlagOvd)
	for _, e := range rec.events {
		if e["e"] == "stmt" {
			er.events = append(er.events, e)
		}
	}
	return er
}

func oneLine(s string) string { return strings.ReplaceAll(s, "\n", " ") }
