"""Front-end checks: Syntax.tla prints texts and expected trees / spans / diagnostics; the harness observes the real
parser / checker / hover on them; FrontTrace.tla judges."""
import json, os
from .core import Infra, read_ndjson
from .checks_store import gen_lines


def syntax_gen(ctx, seed, ntrees, maxstmts, cfg, tag, module="Syntax", trees_cmd="syn-trees", workers=4):
    tp = os.path.join(ctx.work, "trees_%s.ndjson" % tag)
    ctx.vh_json([trees_cmd, seed, ntrees, maxstmts, tp])
    g = ctx.tlc(module, cfg, env={"TREES": tp}, workers=workers, label="%s prints text + expected tree/spans (%s)" % (module, tag), timeout=3600)
    if g["tlc_error"] or not g["finished"] or g["inv_violated"]:
        raise Infra("Syntax machine failed (%s): %s %s\n%s" % (tag, g["tlc_error"], g["inv_violated"], g["out"][-1500:]))
    out = [x[4:] for x in g["printed"] if x.startswith("GEN ")]
    if not out:
        raise Infra("Syntax machine printed nothing")
    ctx.cov["states"] += g["states"]
    ctx.cov["transitions"] += g["generated"]
    gp = os.path.join(ctx.work, "gen_%s.ndjson" % tag)
    open(gp, "w").write("\n".join(out) + "\n")
    return gp, len(out)


def family_gen(ctx, cfg_syntax, tag, scope=None, trees_only=False):
    """ShapeFam.tla: exhaustive families of abstract programs printed by TLC, then printed as text (with the static
    verdict and the expected name diagnostics) by the Syntax machine"""
    g = ctx.tlc("ShapeFam", "ShapeFam_%s.cfg" % (scope or ctx.tier), workers=1, label="ShapeFam.tla: exhaustive source-shape and name families", timeout=1800)
    if g["tlc_error"] or not g["finished"] or g["inv_violated"]:
        raise Infra("ShapeFam failed: %s" % g["tlc_error"])
    trees = [json.loads(x[4:]) for x in g["printed"] if x.startswith("GEN ")]
    if not trees:
        raise Infra("ShapeFam printed nothing")
    tp = os.path.join(ctx.work, "trees_%s.ndjson" % tag)
    with open(tp, "w") as f:
        dflt = {"account": ("a", {"t": "acct", "v": "a"}), "asset": ("USD", {"t": "asset", "v": "USD"}), "number": ("5", {"t": "num", "v": 5}),
                "monetary": ("USD 10", {"t": "mon", "a": "USD", "v": 10}), "portion": ("1/2", {"t": "portion", "n": 1, "d": 2}), "string": ("key", {"t": "str", "v": "key"})}
        for i, t in enumerate(trees):
            # inputs under which a well-formed member executes: every supplied variable has a value of its declared type
            rawvars, varvals, meta = {}, {}, {}
            for d in t["vars"]:
                if d["origin"]["k"] == "none":
                    if d["type"] in dflt and d["name"] not in rawvars:
                        rawvars[d["name"]], varvals[d["name"]] = dflt[d["type"]]
                elif d["origin"]["name"] == "meta":
                    meta = {"a": {"key": "some text"}}
                    varvals[d["name"]] = {"t": "str", "v": "some text"}
                else:
                    varvals[d["name"]] = {"t": "none"}
            t.update(id=i, bal={"a": {"USD": 100}, "b": {"USD": 50}}, meta=meta, rawvars=rawvars, varvals=varvals)
            f.write(json.dumps(t) + "\n")
    if trees_only:
        return None, tp, len(trees)
    g = ctx.tlc("Syntax", cfg_syntax, env={"TREES": tp}, workers=8, label="Syntax prints the family (%s)" % tag, timeout=3600)
    if g["tlc_error"] or not g["finished"] or g["inv_violated"]:
        raise Infra("Syntax machine failed (%s): %s %s\n%s" % (tag, g["tlc_error"], g["inv_violated"], g["out"][-1500:]))
    out = [x[4:] for x in g["printed"] if x.startswith("GEN ")]
    ctx.cov["states"] += g["states"]
    ctx.cov["transitions"] += g["generated"]
    gp = os.path.join(ctx.work, "gen_%s.ndjson" % tag)
    open(gp, "w").write("\n".join(out) + "\n")
    return gp, tp, len(out)


def judge_front(ctx, obs_path, cfg, prop, describe, replay_kind="front"):
    r = ctx.tlc_trace("FrontTrace", cfg, obs_path, label="FrontTrace judges the real front end (%s)" % cfg)
    viols = [v for v in r["viols"] if v["prop"] == prop]
    if not viols:
        return
    obs = read_ndjson(obs_path)
    seen = set()
    for v in viols:
        if v["what"] in seen or len(ctx.violations) >= 4:
            continue
        o = obs[v["id"]]
        rp = dict(kind=replay_kind, property=prop, cfg=cfg, case=o)
        if confirm_front(ctx, rp):
            seen.add(v["what"])
            ctx.add_violation("%s: %s | %s" % (prop, v["what"], describe(o, v)), rp)
            continue
        # the answer may depend on what the same process handled just before (a cache, a pool, a package-level table): the
        # candidate is then replayed in a fresh process after the texts that preceded it
        rp = dict(kind=replay_kind, property=prop, cfg=cfg, case=o, history=[obs[j]["text"] for j in range(max(0, v["id"] - 8), v["id"])])
        if confirm_front(ctx, rp):
            seen.add(v["what"])
            ctx.add_violation("%s: %s (only after the %d preceding texts were handled by the same process) | %s" % (prop, v["what"], len(rp["history"]), describe(o, v)), rp)
        else:
            raise Infra("candidate did not reproduce: %s" % v)


def confirm_front(ctx, rp):
    p = os.path.join(ctx.work, "cand%d.json" % len(os.listdir(ctx.work)))
    json.dump(rp, open(p, "w"))
    ctx.vh_json(["front-replay", p, p + ".out"])
    r = ctx.tlc_trace("FrontTrace", rp["cfg"], p + ".out", label="confirmation")
    rp["observed_again"] = read_ndjson(p + ".out")
    return [v for v in r["viols"] if v["prop"] == rp["property"]]


def describe_syn(o, v):
    at = v.get("at", 0)
    key = "flat" if "structure" in v["what"] else "nodes"
    e, b = o.get("exp" + key, []), o["obs"].get(key, [])
    return "first difference at %d: expected %s observed %s | text: %r" % (at, e[at - 1:at], b[at - 1:at], o["text"][:300])


def lex_family(ctx, prop):
    """LexFam.tla -> the real lexer and parser -> LexTrace.tla (characters -> tokens -> accepted or not)"""
    from .checks_store import gen_lines
    fam = gen_lines(ctx, "LexFam", "LexFam_%s.cfg" % ctx.tier, "LexFam.tla: every text of up to N pieces with Lexer!Lex's tokens and errors and Grammar!Accepts", timeout=3000)
    gp = os.path.join(ctx.work, "lexfam.ndjson")
    open(gp, "w").write("\n".join(fam) + "\n")
    op = os.path.join(ctx.work, "lexfam_obs.ndjson")
    s1 = ctx.vh_json(["lex-check", gp, op], timeout=3600)
    r = ctx.tlc_trace("LexTrace", "LexTrace_%s.cfg" % prop, op, label="LexTrace judges the real lexer / parser on the LexFam texts", timeout=3600)
    ctx.cov["evaluations"] += s1["cases"]
    ctx.cov["distinct_nontrivial"] += s1["with_lexer_errors"]
    ctx.cov["traces_validated_against_impl"] += s1["cases"]
    ctx.cov["lexer_family_texts"] = s1["cases"]
    ctx.cov["samples"] += (s1["samples"] or [])[:1]
    viols = [v for v in r["viols"] if v["prop"] == prop]
    seen = set()
    for v in viols:
        if v["what"] in seen or len(ctx.violations) >= 4:
            continue
        inp = json.loads(fam[v["id"]])
        inp["variant"] = v["id"]
        rp = dict(kind="lex", property=prop, input=inp)
        if confirm_lex(ctx, rp):
            seen.add(v["what"])
            o = rp["observed_again"][0]
            ctx.add_violation("%s: %s | text: %r | expected tokens %s errors %s | observed %s" % (prop, v["what"], o["text"], json.dumps(o["exptoks"])[:200], json.dumps(o["experrs"])[:100], json.dumps(o["obs"])[:300]), rp)
        else:
            raise Infra("candidate did not reproduce: %s" % v)


def confirm_lex(ctx, rp):
    p = os.path.join(ctx.work, "cand%d" % len(os.listdir(ctx.work)))
    open(p + ".in", "w").write(json.dumps(rp["input"]) + "\n")
    ctx.vh_json(["lex-check", p + ".in", p + ".out"])
    r = ctx.tlc_trace("LexTrace", "LexTrace_%s.cfg" % rp["property"], p + ".out", label="confirmation")
    rp["observed_again"] = read_ndjson(p + ".out")
    return [v for v in r["viols"] if v["prop"] == rp["property"]]


def c15(ctx, cfg="FrontTrace_C15.cfg", prop="C15"):
    ctx.build()
    if prop == "C15":
        lex_family(ctx, "C15")
    nt, no = (250, 8) if ctx.tier == "quick" else (1500, 40)
    gp, n1 = syntax_gen(ctx, ctx.seed, nt, 3, "Syntax_seeded.cfg", "seeded")
    op = os.path.join(ctx.work, "obs_seeded.ndjson")
    s1 = ctx.vh_json(["syn-check", gp, op])
    judge_front(ctx, op, cfg, prop, describe_syn)
    gp2, n2 = syntax_gen(ctx, ctx.seed + 7, no, 2, "Syntax_onegap.cfg", "onegap")
    op2 = os.path.join(ctx.work, "obs_onegap.ndjson")
    s2 = ctx.vh_json(["syn-check", gp2, op2])
    judge_front(ctx, op2, cfg, prop, describe_syn)
    ctx.cov["evaluations"] += s1["cases"] + s2["cases"]
    ctx.cov["distinct_nontrivial"] += s1["nontrivial"] + s2["nontrivial"]
    ctx.cov["traces_validated_against_impl"] += s1["cases"] + s2["cases"]
    ctx.cov["node_kinds_covered"] = max(s1["node_kinds"], s2["node_kinds"])
    ctx.cov["samples"] += (s1["samples"] or [])[:2] + (s2["samples"] or [])[:1]


def c13(ctx):
    ctx.build()
    ctx.tlc_mc("RoundTrip", "RoundTrip.cfg", workers=4, label="two-run machine: reading the rendering of a value yields the value (all six types, design level)")
    lex = gen_lines(ctx, "Portions", "Portions_%s.cfg" % ctx.tier, "every portion spelling over short digit strings with its exact value", workers=4)
    if ctx.tier == "thorough":
        lex += gen_lines(ctx, "Portions", "Portions_deep.cfg", "spellings with up to three digits per part over a smaller digit alphabet", workers=4)
    gp = os.path.join(ctx.work, "portions.ndjson")
    open(gp, "w").write("\n".join(lex) + "\n")
    op = os.path.join(ctx.work, "values.ndjson")
    s1 = ctx.vh_json(["portion-check", gp, op])
    rp = os.path.join(ctx.work, "rt.ndjson")
    s2 = ctx.vh_json(["rt-check", ctx.seed, 400 if ctx.tier == "quick" else 5000, rp])
    open(op, "a").write(open(rp).read())
    r = ctx.tlc_trace("ValueTrace", "ValueTrace.cfg", op, label="ValueTrace judges literal / variable / metadata texts")
    ctx.cov["evaluations"] += s1["cases"] * 4 + s2["cases"] * 3
    ctx.cov["distinct_nontrivial"] += s1["nontrivial"] + s2["nontrivial"]
    ctx.cov["traces_validated_against_impl"] += s1["cases"] + s2["cases"]
    ctx.cov["portion_spellings_exhaustive"] = s1["cases"]
    ctx.cov["samples"] += (s1["samples"] or [])[:2] + (s2["samples"] or [])[:2]
    if r["viols"]:
        obs = read_ndjson(op)
        seen = set()
        for v in r["viols"]:
            if v["what"] in seen or len(ctx.violations) >= 4:
                continue
            o = obs[v["line"] - 1]
            rpobj = dict(kind="value", property="C13", case=o)
            if confirm_value(ctx, rpobj):
                seen.add(v["what"])
                ctx.add_violation("C13: %s | %s" % (v["what"], json.dumps({k: o[k] for k in o if k not in ("long",)})[:500]), rpobj)
            else:
                raise Infra("candidate did not reproduce: %s" % v)


def confirm_value(ctx, rp):
    o = rp["case"]
    p = os.path.join(ctx.work, "cand%d" % len(os.listdir(ctx.work)))
    if o["e"] == "portion":
        open(p + ".in", "w").write(json.dumps({"lex": o["lex"], "n": o["pn"], "d": o["pd"], "zk": o.get("zk", 0) if o.get("long") else 0}) + "\n")
        ctx.vh_json(["portion-check", p + ".in", p + ".out"])
    else:
        open(p + ".in", "w").write(json.dumps({"type": o["type"], "text": o["text"], "canon": o["canon"]}) + "\n")
        ctx.vh_json(["rt-one", p + ".in", p + ".out"])
    r = ctx.tlc_trace("ValueTrace", "ValueTrace.cfg", p + ".out", label="confirmation")
    rp["observed_again"] = read_ndjson(p + ".out")
    return r["viols"]


def describe_chk(o, v):
    return "diagnostics observed: %s | expected name diagnostics: %s | valid=%s | text: %r" % (json.dumps(o["obs"].get("diags"))[:400], json.dumps(o.get("expnames"))[:300], o.get("valid"), o["text"][:300])


def c16(ctx):
    ctx.build()
    n = 500 if ctx.tier == "quick" else 4000
    for mode, tag in (("names", "valid programs and their name edits"), ("plain", "valid programs")):
        gp, cnt = syntax_gen(ctx, ctx.seed, n, mode, "Syntax_static.cfg", "static_" + mode, trees_cmd="chk-trees")
        op = os.path.join(ctx.work, "obs_%s.ndjson" % mode)
        s1 = ctx.vh_json(["chk-check", gp, op])
        judge_front(ctx, op, "FrontTrace_C16.cfg", "C16", describe_chk, replay_kind="diag")
        ctx.cov["evaluations"] += s1["cases"]
        ctx.cov["distinct_nontrivial"] += s1["with_name_diagnostics"]
        ctx.cov["traces_validated_against_impl"] += s1["cases"]
        ctx.cov["statically_valid_cases"] = ctx.cov.get("statically_valid_cases", 0) + s1["valid"]
        ctx.cov["samples"] += (s1["samples"] or [])[:2]
    # exhaustive families (every source shape of depth <= 2 (+ one cap) x {send, send-all}; every small use of two names)
    gp, tp, cnt = family_gen(ctx, "Syntax_static1.cfg", "family")
    op = os.path.join(ctx.work, "obs_family.ndjson")
    s1 = ctx.vh_json(["chk-check", gp, op])
    judge_front(ctx, op, "FrontTrace_C16.cfg", "C16", describe_chk, replay_kind="diag")
    ctx.cov["evaluations"] += s1["cases"]
    ctx.cov["distinct_nontrivial"] += s1["with_name_diagnostics"]
    ctx.cov["traces_validated_against_impl"] += s1["cases"]
    ctx.cov["family_cases"] = s1["cases"]
    ctx.cov["statically_valid_cases"] = ctx.cov.get("statically_valid_cases", 0) + s1["valid"]


def c17(ctx):
    ctx.build()
    ctx.tlc_mc("StaticMC", "StaticMC.cfg", workers=6, label="soundness theorem: Static!Valid => Sem!Run has no static-class / send-all-shape failure (design level)")
    n = 1500 if ctx.tier == "quick" else 12000
    tp = os.path.join(ctx.work, "trees_types.ndjson")
    gp, cnt = syntax_gen(ctx, ctx.seed, n, "types", "Syntax_static1.cfg", "types", trees_cmd="chk-trees")
    op = os.path.join(ctx.work, "obs_c17.ndjson")
    s1 = ctx.vh_json(["c17-check", gp, tp, op])
    judge_front(ctx, op, "FrontTrace_C17.cfg", "C17", lambda o, v: "check: %s | run: %s | vars: %s | text: %r" % (json.dumps(o["obs"].get("diags"))[:300], o["run"], o["rawvars"], o["text"][:300]), replay_kind="c17")
    ctx.cov["evaluations"] += s1["cases"]
    ctx.cov["distinct_nontrivial"] += s1["clean_check"]
    ctx.cov["traces_validated_against_impl"] += s1["cases"]
    ctx.cov["clean_but_failing_at_run_time"] = s1["clean_but_failing_at_run_time"]
    ctx.cov["samples"] += (s1["samples"] or [])[:2]
    # the exhaustive source-shape / name families: whatever the checker lets through is executed
    gp, tp2, cnt = family_gen(ctx, "Syntax_static1.cfg", "family")
    op = os.path.join(ctx.work, "obs_c17_family.ndjson")
    s2 = ctx.vh_json(["c17-check", gp, tp2, op])
    judge_front(ctx, op, "FrontTrace_C17.cfg", "C17", lambda o, v: "check: %s | run: %s | vars: %s | text: %r" % (json.dumps(o["obs"].get("diags"))[:300], o["run"], o["rawvars"], o["text"][:300]), replay_kind="c17")
    ctx.cov["evaluations"] += s2["cases"]
    ctx.cov["distinct_nontrivial"] += s2["clean_check"]
    ctx.cov["traces_validated_against_impl"] += s2["cases"]
    ctx.cov["family_cases"] = s2["cases"]


def known_panic(prop, panic_msg):
    from .core import load_known
    for k in load_known():
        if k.get("status") == "known" and (k.get("property") == prop or prop in k.get("also", [])):
            pc = k.get("match", {}).get("panic_contains")
            if pc and pc in (panic_msg or ""):
                return k
    return None


def edit_check(ctx, prop, which):
    """Edit.tla documents through the real parser (C14) or the editor analyses (C18)"""
    ctx.build()
    if prop == "C14":
        lex_family(ctx, "C14")
    nt = 8 if ctx.tier == "quick" else 40
    cfgs = [("Edit_quick.cfg", nt, 2)] if ctx.tier == "quick" else [("Edit_thorough.cfg", nt, 2), ("Edit_double.cfg", 6, 1)]
    witness = None
    extra = [("soups", 0, 0), ("calls", 0, 0)] + ([("family", 0, 0), ("sizes", 0, 0)] if prop == "C18" else [])
    for cfg, ntrees, ms in cfgs + extra:
        if cfg == "soups":
            gp = os.path.join(ctx.work, "soups.ndjson")
            ctx.vh_json(["soups", ctx.seed, 6000 if ctx.tier == "quick" else 100000, gp])
        elif cfg == "calls":
            # argument lists of built-in calls with holes before, at and after the place where the surplus begins (CallFam.tla)
            cs = gen_lines(ctx, "CallFam", "CallFam_%s.cfg" % ctx.tier, "built-in calls x argument lists of well-formed slots, keywords and empty slots", workers=1)
            gp = os.path.join(ctx.work, "call_docs.ndjson")
            with open(gp, "w") as f:
                for i, c in enumerate(cs):
                    t = json.loads(c)["text"]
                    f.write(json.dumps(dict(id=i, text=t, lines=[len(x) for x in t.split("\n")], lexok=False, accepts=False, unspec=True, ntoks=0)) + "\n")
            ctx.cov["call_argument_lists"] = len(cs)
        elif cfg == "sizes":
            # documents by number of diagnostics around powers of two and round numbers, with unused declarations (SizeFam.tla)
            ds = gen_lines(ctx, "SizeFam", "SizeFam_%s.cfg" % ctx.tier, "documents by size: thresholds x offsets x unused declarations x kinds", workers=1)
            dp = os.path.join(ctx.work, "size_desc.ndjson")
            open(dp, "w").write("\n".join(ds) + "\n")
            gp = os.path.join(ctx.work, "size_docs.ndjson")
            ctx.vh_json(["size-docs", dp, gp])
            ctx.cov["documents_by_size"] = len(ds)
        elif cfg == "family":
            # the exhaustive name / position / allotment families of ShapeFam.tla (no verdict attached: analysed like the soups)
            fgp, _, _ = family_gen(ctx, "Syntax_static1.cfg", "c18fam", scope="analysis")
            gp = os.path.join(ctx.work, "family_docs.ndjson")
            with open(gp, "w") as f:
                for i, g in enumerate(read_ndjson(fgp)):
                    t = g["text"]
                    f.write(json.dumps(dict(id=i, text=t, lines=[len(x) for x in t.split("\n")], lexok=False, accepts=False, unspec=True, ntoks=0)) + "\n")
        else:
            gp, cnt = syntax_gen(ctx, ctx.seed, ntrees, ms, cfg, "edit_" + cfg.split(".")[0], module="Edit", workers=8)
        if witness is None:
            # dedicated witnesses of the known findings are appended to the first batch
            from .core import load_known
            lines = []
            for k in load_known():
                if k.get("status") == "known" and (k.get("property") == prop or prop in k.get("also", [])) and k.get("witness"):
                    t = k["witness"]
                    lines.append(json.dumps(dict(id=-1, text=t, lines=[len(x) for x in t.split("\n")], lexok=False, accepts=False, unspec=True, ntoks=0)))
            if lines:
                open(gp, "a").write("\n".join(lines) + "\n")
            witness = True
        op = os.path.join(ctx.work, "obs_%s.ndjson" % cfg)
        s1 = ctx.vh_json(["edit-check", gp, op, which], timeout=3600)
        r = ctx.tlc_trace("EditTrace", "EditTrace_%s.cfg" % prop, op, label="EditTrace judges the real %s on Edit.tla documents" % which)
        ctx.cov["evaluations"] += s1["cases"]
        ctx.cov["distinct_nontrivial"] += s1["nontrivial"]
        ctx.cov["traces_validated_against_impl"] += s1["cases"]
        ctx.cov["cursor_positions"] = ctx.cov.get("cursor_positions", 0) + s1.get("positions", 0)
        ctx.cov["samples"] += (s1["samples"] or [])[:2]
        viols = [v for v in r["viols"] if v["prop"] == prop]
        if not viols:
            continue
        obs = read_ndjson(op)
        seen = set()
        for v in viols:
            o = obs[v["id"]]
            kn = known_panic(prop, o["obs"].get("panic", "")) if "panic" in v["what"] else None
            if kn:
                tag = "%s %s" % (kn["id"], kn["what"][:160])
                if tag not in ctx.known_hits:
                    ctx.known_hits.append(tag)
                continue
            if v["what"] in seen or len(ctx.violations) >= 4:
                continue
            rp = dict(kind="edit", property=prop, which=which, case=dict(id=o["id"], text=o["text"], lines=o["lines"], lexok=o["lexok"], accepts=o["accepts"], unspec=o.get("unspec", False), ntoks=0))
            if confirm_edit(ctx, rp):
                seen.add(v["what"])
                ctx.add_violation("%s: %s | observed: %s | text: %r" % (prop, v["what"], json.dumps(o["obs"])[:300], o["text"][:300]), rp)
                continue
            # what is said about a text may depend on the texts the same process handled just before (a cache keyed by a digest of
            # the text, a pool): the candidate is then replayed in a fresh process after the documents that preceded it
            mk = lambda x: dict(id=x["id"], text=x["text"], lines=x["lines"], lexok=x["lexok"], accepts=x["accepts"], unspec=x.get("unspec", False), ntoks=0)
            rp = dict(rp, history=[mk(obs[j]) for j in range(max(0, v["id"] - 300), v["id"])])
            if confirm_edit(ctx, rp):
                seen.add(v["what"])
                ctx.add_violation("%s: %s (only after the %d preceding documents were handled by the same process) | observed: %s | text: %r" % (prop, v["what"], len(rp["history"]), json.dumps(o["obs"])[:300], o["text"][:300]), rp)
            else:
                raise Infra("candidate did not reproduce: %s" % v)


def confirm_edit(ctx, rp):
    p = os.path.join(ctx.work, "cand%d" % len(os.listdir(ctx.work)))
    hist = rp.get("history", [])
    open(p + ".in", "w").write("".join(json.dumps(x) + "\n" for x in hist + [rp["case"]]))
    ctx.vh_json(["edit-check", p + ".in", p + ".out", rp["which"]])
    r = ctx.tlc_trace("EditTrace", "EditTrace_%s.cfg" % rp["property"], p + ".out", label="confirmation")
    rp["observed_again"] = read_ndjson(p + ".out")[-1:]
    return [v for v in r["viols"] if v["prop"] == rp["property"] and v["id"] == len(hist)]


def rerun_generic(ctx, rp):
    """re-run the harness command of a replay file on its single input line and judge again"""
    p = os.path.join(ctx.work, "cand%d" % len(os.listdir(ctx.work)))
    open(p + ".in", "w").write(json.dumps(rp["input"]) + "\n")
    ctx.vh_json([rp["cmd"], p + ".in", p + ".out"])
    r = ctx.tlc_trace("FrontTrace", rp["cfg"], p + ".out", label="confirmation")
    rp["observed_again"] = read_ndjson(p + ".out")
    return [v for v in r["viols"] if v["prop"] == rp["property"]]


def c19(ctx):
    ctx.build()
    wire_check(ctx)
    # (1) histories: every well-formed history up to the bound, printed by TLC from Lsp.tla (its own invariants are checked on the way)
    hs = gen_lines(ctx, "Lsp", "Lsp_%s.cfg" % ctx.tier, "every LSP history up to the bound with the text each reply must come from", workers=4)
    # one document opened, changed, re-opened (the client's version numbers restart), changed again, then one query
    hs += gen_lines(ctx, "Lsp", "Lsp_reopen.cfg", "every open / change / re-open history of one document of length 6, then one query", workers=4)
    g = ctx.tlc("Lsp", "Lsp_sim.cfg", workers=1, simulate="num=%d" % (100 if ctx.tier == "quick" else 2000), depth=12,
                extra=["-seed", str(ctx.seed)], label="random long histories (simulation)")
    sim = sorted(set(x[4:] for x in g["printed"] if x.startswith("GEN ")))
    if g["tlc_error"]:
        raise Infra("Lsp simulation failed: %s" % g["tlc_error"])
    hp = os.path.join(ctx.work, "hist.ndjson")
    open(hp, "w").write("\n".join(hs + sim) + "\n")
    op = os.path.join(ctx.work, "lsp_obs.ndjson")
    s1 = ctx.vh_json(["lsp-check", hp, op], timeout=3600)
    r = ctx.tlc_trace("FrontTrace", "FrontTrace_C19h.cfg", op, label="FrontTrace judges the long-lived server against fresh servers")
    ctx.cov["evaluations"] += s1["steps"]
    ctx.cov["distinct_nontrivial"] += s1["nontrivial"]
    ctx.cov["traces_validated_against_impl"] += s1["cases"]
    ctx.cov["histories_exhaustive"] = len(hs)
    ctx.cov["histories_random_long"] = len(sim)
    ctx.cov["samples"] += (s1["samples"] or [])[:1]
    viols = [v for v in r["viols"] if v["prop"] == "C19"]
    if viols:
        obs = read_ndjson(op)
        seen = set()
        for v in viols:
            if v["what"] in seen:
                continue
            o = obs[v["id"]]
            rp = dict(kind="generic", property="C19", cfg="FrontTrace_C19h.cfg", cmd="lsp-check", input=o["hist"])
            if rerun_generic(ctx, rp):
                seen.add(v["what"])
                st = o["steps"][v["at"] - 1]
                ctx.add_violation("C19: %s | history: %s | step %d: long-lived -> %s %s ; fresh -> %s %s" % (v["what"], json.dumps(o["hist"]), v["at"], st["long"][:200], st["longpub"][:200], st["fresh"][:200], st["freshpub"][:200]), rp)
            else:
                raise Infra("candidate did not reproduce: %s" % v)
    # (2) navigation at every position of generated scripts (valid ones and their name edits), and of the exhaustive
    #     family "a variable in every syntactic position that can hold one" (ShapeFam.tla)
    n = 150 if ctx.tier == "quick" else 1500
    gp, cnt = syntax_gen(ctx, ctx.seed + 3, n, "names", "Syntax_static1.cfg", "nav", trees_cmd="chk-trees")
    gpf, _, cntf = family_gen(ctx, "Syntax_static1.cfg", "navfam", scope="names")
    with open(gp, "a") as f:
        for i, line in enumerate(read_ndjson(gpf)):
            line["id"] = cnt + i
            f.write(json.dumps(line) + "\n")
    ctx.cov["navigation_family_scripts"] = cntf
    op2 = os.path.join(ctx.work, "nav_obs.ndjson")
    s2 = ctx.vh_json(["nav-check", gp, op2], timeout=3600)
    r2 = ctx.tlc_trace("FrontTrace", "FrontTrace_C19n.cfg", op2, label="FrontTrace judges hover / definition at every position against the token table", timeout=3600)
    ctx.cov["evaluations"] += s2["positions"]
    ctx.cov["distinct_nontrivial"] += s2["nontrivial"]
    ctx.cov["traces_validated_against_impl"] += s2["cases"]
    ctx.cov["cursor_positions"] = s2["positions"]
    ctx.cov["samples"] += (s2["samples"] or [])[:1]
    viols = [v for v in r2["viols"] if v["prop"] == "C19"]
    if viols:
        obs = read_ndjson(op2)
        gens = read_ndjson(gp)
        seen = set()
        for v in viols:
            if v["what"] in seen:
                continue
            o = obs[v["id"]]
            rp = dict(kind="generic", property="C19", cfg="FrontTrace_C19n.cfg", cmd="nav-check", input=[g for g in gens if g["id"] == o["id"]][0])
            if rerun_generic(ctx, rp):
                seen.add(v["what"])
                pr = o["probes"][v["at"] - 1] if v.get("at") else None
                ctx.add_violation("C19: %s | probe %s | text: %r" % (v["what"], pr, o["text"][:300]), rp)
            else:
                raise Infra("candidate did not reproduce: %s" % v)


def wire_check(ctx):
    """C19 below the handlers: Wire.tla (client, pipe with short reads, buffered server) model-checked; its cut schedules
    replayed against the real binary `numscript lsp`"""
    import subprocess
    from .core import REPO, goenv
    from .checks_store import gen_lines
    ctx.tlc_mc("Wire", "Wire_%s.cfg" % ctx.tier, label="Wire.tla: reassembly of the request stream under every chunking and every short read (design level)")
    r = ctx.tlc("Wire", "Wire_once.cfg", workers=8, label="named deviation ReadMode=once (one Read instead of ReadFull) must violate Reassembly")
    if "Reassembly" not in " ".join(r["inv_violated"]):
        raise Infra("Wire.tla with ReadMode=once was not refuted: the reassembly invariant is vacuous")
    binp = os.path.join(ctx.work, "numscript_lsp")
    p = subprocess.run(["go", "build", "-o", binp, "./internal/numscript"], cwd=REPO, env=goenv(), capture_output=True, text=True)
    if p.returncode != 0:
        raise Infra("cannot build the numscript binary: %s" % p.stderr[-500:])
    gens = sorted(set(gen_lines(ctx, "Wire", "Wire_gen_%s.cfg" % ctx.tier, "cut schedules of the request stream (structural positions)")))
    gp = os.path.join(ctx.work, "wire_gen.ndjson")
    open(gp, "w").write("\n".join(gens) + "\n")
    op = os.path.join(ctx.work, "wire_obs.ndjson")
    s1 = ctx.vh_json(["wire-check", binp, gp, op], timeout=3600)
    r = ctx.tlc_trace("WireTrace", "WireTrace.cfg", op, label="WireTrace judges the real server binary under every cut schedule")
    ctx.cov["evaluations"] += s1["cases"]
    ctx.cov["traces_validated_against_impl"] += s1["cases"]
    ctx.cov["wire_schedules_replayed"] = s1["cases"]
    viols = [v for v in r["viols"] if v["prop"] == "C19"]
    if viols:
        obs = read_ndjson(op)
        seen = set()
        for v in viols:
            if v["what"] in seen:
                continue
            o = obs[v["id"]]
            # confirm: the same cut offsets once more, in a fresh harness process
            cp = os.path.join(ctx.work, "wire_cand%d.ndjson" % len(seen))
            open(cp, "w").write(gens[0] + "\n")    # placeholder line; the recorded offsets are replayed through VERIF_WIRE_CUTS
            again = ctx.vh_json(["wire-check", binp, cp, cp + ".out"], env={"VERIF_WIRE_CUTS": json.dumps(o["cuts"])})
            r2 = ctx.tlc_trace("WireTrace", "WireTrace.cfg", cp + ".out", label="confirmation")
            if [x for x in r2["viols"] if x["prop"] == "C19"]:
                seen.add(v["what"])
                ctx.add_violation("C19 (transport): %s | request stream of %d bytes written in pieces ending at offsets %s | exit %s, %d frames (uncut run: %d), hover %s" % (
                    v["what"], s1["stream_bytes"], o["cuts"], o["exit"], o["nframes"], o["basenframes"], o["hover"][:160]),
                    dict(kind="wire", property="C19", cuts=o["cuts"], observed=o))
            else:
                raise Infra("candidate did not reproduce: %s" % v)


def c20(ctx):
    import subprocess
    from .core import REPO, goenv
    ctx.build()
    binp = os.path.join(ctx.work, "numscript")
    p = subprocess.run(["go", "build", "-o", binp, "./internal/numscript"], cwd=REPO, env=goenv(), capture_output=True, text=True)
    if p.returncode != 0:
        raise Infra("building the numscript binary failed:\n" + p.stdout + p.stderr)
    cfgs = gen_lines(ctx, "Cli", "Cli.cfg", "every channel configuration (which of --raw / file options / --stdin provides which field)")
    cp = os.path.join(ctx.work, "clicfg.ndjson")
    open(cp, "w").write("\n".join(cfgs) + "\n")
    n = 600 if ctx.tier == "quick" else 3 * len(cfgs)
    op = os.path.join(ctx.work, "cli_obs.ndjson")
    s1 = ctx.vh_json(["cli-check", cp, ctx.seed, n, binp, os.path.join(ctx.work, "clitmp"), op], timeout=7200)
    r = ctx.tlc_trace("CliTrace", "CliTrace.cfg", op, label="CliTrace judges binary against library")
    ctx.cov["programs"] = s1["cases"]
    ctx.cov["evaluations"] += s1["cases"]
    ctx.cov["distinct_nontrivial"] += s1["nontrivial"]
    ctx.cov["traces_validated_against_impl"] += s1["cases"]
    ctx.cov["channel_configurations"] = len(cfgs)
    ctx.cov["library_outcomes"] = s1["outcomes"]
    ctx.cov["samples"] += (s1["samples"] or [])[:2]
    ctx.cov["disagreements_checked"] = len(r["viols"])
    if r["viols"]:
        obs = read_ndjson(op)
        seen = set()
        for v in r["viols"]:
            if v["what"] in seen or len(ctx.violations) >= 4:
                continue
            o = obs[v["id"]]
            # confirm: run the very same command line again
            e2 = subprocess.run([binp] + o["args"], input=o["stdin"], capture_output=True, text=True)
            same = (e2.returncode == o["exit"]) and (o["mode"] == "check" or e2.stdout == o["stdout"])
            if same:
                seen.add(v["what"])
                ctx.add_violation("C20: %s | args: %s | stdin: %s | exit=%s stdout=%s | library: %s %s" % (v["what"], o["args"], o["stdin"][:300], o["exit"], o["stdout"][:300], o["libst"], o["libjson"][:300]),
                                  dict(kind="cli", property="C20", case=o))
            elif not same:
                raise Infra("candidate did not reproduce: %s" % v)
