"""Checks of the money semantics (C01-C07...): design-level model checking of the
specification plus trace validation of real executions by TLC."""
import json, os, concurrent.futures as cf
from .core import Ctx, Infra, read_ndjson, load_known

NONTRIV_RULE = ("cases are random script trees of the property's corpus (see harness/gen.go corpusCfg) run on random balance sheets; "
                "a case is non-trivial when it yields >= 2 postings or fails while executing a statement; distinct = distinct "
                "(statement tree shape, outcome class, number of postings)")


def group_cases(path):
    cases = {}
    cur = None
    for rec in read_ndjson(path):
        if rec["e"] == "case":
            cur = rec["id"]
            cases[cur] = [rec]
        else:
            cases[cur].append(rec)
    return cases


def confirm_sem(ctx, cfg, lines, prop):
    """re-execute the case in a fresh process and let TLC judge the fresh trace again"""
    case = lines[0]
    rp = dict(kind="sem", property=prop, cfg=cfg, case={k: case[k] for k in ("id", "corpus", "text", "rawvars", "bal", "meta", "flagovd", "varvals")})
    path = os.path.join(ctx.work, "cand%d.json" % len(os.listdir(ctx.work)))
    json.dump(rp, open(path, "w"))
    # (a violation that depends on the iteration order of a map may need more than one attempt to show again)
    for attempt in range(6):
        out = ctx.vh_json(["rerun", path])
        fresh = out["lines"]
        tpath = path + ".ndjson"
        with open(tpath, "w") as f:
            for l in fresh:
                f.write(json.dumps(l) + "\n")
        r = ctx.tlc_trace("MachineTrace", cfg, tpath, label="confirmation of a candidate")
        hits = [v for v in r["viols"] if v["prop"] == prop]
        if hits:
            break
    rp["observed"] = fresh[1:]
    rp["tlc"] = hits
    return hits, rp


def match_known(prop, case, viol):
    for k in load_known():
        if k.get("status") != "known" or k.get("property") != prop:
            continue
        m = k.get("match", {})
        if "text_contains" in m and all(t in case.get("text", "") for t in m["text_contains"]):
            return k
    return None


def trace_batches(ctx, corpus, cfg, n, batches, prop=None, also=()):
    """generate `batches` trace files of n cases each, validate each with TLC (in parallel), confirm candidates"""
    prop = prop or ctx.prop
    ctx.build()
    jobs = []
    for b in range(batches):
        path = os.path.join(ctx.work, "trace_%s_%d.ndjson" % (corpus, b))
        jobs.append((b, path))

    def one(job):
        b, path = job
        summ = ctx.vh_json(["sem", corpus, ctx.seed * 1000 + b, n, path])
        return job, summ

    summaries = []
    with cf.ThreadPoolExecutor(max_workers=8) as ex:
        for job, summ in ex.map(one, jobs):
            summaries.append((job, summ))
    results = []

    def val(js):
        (b, path), summ = js
        return js, ctx.tlc_trace("MachineTrace", cfg, path, label="trace validation corpus=%s batch=%d" % (corpus, b))

    with cf.ThreadPoolExecutor(max_workers=8) as ex:
        for js, r in ex.map(val, summaries):
            results.append((js, r))
    confirmed_kinds = set()
    for ((b, path), summ), r in results:
        ctx.cov["evaluations"] += summ["cases"]
        ctx.cov["distinct_nontrivial"] += summ["distinct_shapes"]
        ctx.cov["traces_validated_against_impl"] += summ["cases"]
        for s in summ.get("samples") or []:
            if len(ctx.cov["samples"]) < 4:
                ctx.cov["samples"].append(s)
        ctx.cov.setdefault("outcomes", {})
        for k, v in summ["outcomes"].items():
            ctx.cov["outcomes"][k] = ctx.cov["outcomes"].get(k, 0) + v
        if summ["ndropped"]:
            ctx.cov["dropped_cases"] = ctx.cov.get("dropped_cases", 0) + summ["ndropped"]
            ctx.notes.append("dropped (generator artefacts, not judged): %s" % summ["dropped"])
        if not summ.get("hooks"):
            ctx.notes.append("hooks absent in the tree under test")
        mine = [v for v in r["viols"] if v["prop"] == prop or v["prop"] in also]
        if not mine:
            continue
        cases = group_cases(path)
        for v in mine:
            key = (v["what"],)
            lines = cases[v["id"]]
            kn = match_known(prop, lines[0], v)
            if kn:
                if kn["id"] not in [h.split(" ")[0] for h in ctx.known_hits]:
                    ctx.known_hits.append("%s %s" % (kn["id"], kn["what"]))
                continue
            if key in confirmed_kinds or len(ctx.violations) >= 5 or len(getattr(ctx, "unreproduced", [])) >= 8:
                continue
            hits, rp = confirm_sem(ctx, cfg, lines, v["prop"])
            if hits:
                confirmed_kinds.add(key)
                ctx.add_violation("%s: %s | script: %s" % (v["prop"], v["what"], lines[0]["text"].replace("\n", " ")[:300]), rp)
            else:
                ctx.__dict__.setdefault("unreproduced", []).append(v)


def allot_apalache(ctx, vectors):
    """Apalache: for each fixed portion vector (numerators over a common denominator) the C06 lemmas hold for all n in Nat"""
    tmpl = open(os.path.join(os.path.dirname(os.path.dirname(os.path.abspath(__file__))), "spec", "AllotApa.tla.tmpl")).read()
    for nums, L in vectors:
        k = len(nums)
        defs, floors = [], []
        for i, a in enumerate(nums, 1):
            defs.append("F%d == (n * %d) \\div L" % (i, a))
        for i in range(1, k + 1):
            defs.append("S%d == F%d + (IF %d <= Left THEN 1 ELSE 0)" % (i, i, i))
            floors.append("       /\\ L * F%d <= n * %d /\\ n * %d < L * (F%d + 1)" % (i, nums[i - 1], nums[i - 1], i))
        # Left must be defined before S_i: order the definitions F*, Left, S*
        fdefs = [d for d in defs if d.startswith("F")]
        sdefs = [d for d in defs if d.startswith("S")]
        text = tmpl.replace("@NUMS@", str(nums)).replace("@L@", str(L)).replace("@K@", str(k))
        text = text.replace("@DEFS@\nLeft == n - (@SUMF@)", "\n".join(fdefs) + "\nLeft == n - (%s)\n" % " + ".join("F%d" % i for i in range(1, k + 1)) + "\n".join(sdefs))
        text = text.replace("@SUMS@", " + ".join("S%d" % i for i in range(1, k + 1)))
        text = text.replace("@FLOORS@", "\n".join(floors))
        text = text.replace("@PREFIX@", "\n".join("       /\\ (S%d = F%d + 1 => S%d = F%d + 1)" % (j, j, i, i) for i in range(1, k + 1) for j in range(i + 1, k + 1)))
        ok, out = ctx.apalache(text, "AllotApa")
        if not ok:
            raise Infra("Apalache refuted the allotment lemma for %s/%s (specification error)" % (nums, L))
        ctx.cov["obligations_unbounded_n"] = ctx.cov.get("obligations_unbounded_n", 0) + 1


def inductive_apalache(ctx, module, guards=()):
    """Apalache, unbounded integers: Init => IndInvFinal; IndInvFinal /\\ Next => IndInvFinal'; and the named guards, each a
    (init, next, inv, length) that MUST be refuted (a deviation of the design, or reachability of the interesting states)."""
    text = open(os.path.join(os.path.dirname(os.path.dirname(os.path.abspath(__file__))), "spec", module + ".tla")).read()
    ok, out = ctx.apalache(text, module, inv="IndInvFinal", init="Init", length=0)
    if not ok:
        raise Infra("Apalache: Init does not establish IndInvFinal of %s (specification error)" % module)
    ok, out = ctx.apalache(text, module, inv="IndInvFinal", init="IndInit", length=1)
    if not ok:
        raise Infra("Apalache: IndInvFinal of %s is not inductive (specification error)" % module)
    ctx.cov["inductive_invariants_unbounded"] = ctx.cov.get("inductive_invariants_unbounded", 0) + 1
    for (init, nxt, inv, length) in guards:
        ok, out = ctx.apalache(text, module, inv=inv, init=init, length=length, next_=nxt)
        if ok:
            raise Infra("Apalache: vacuity guard of %s not refuted (init=%s next=%s inv=%s)" % (module, init, nxt, inv))
        ctx.cov["apalache_guards_refuted"] = ctx.cov.get("apalache_guards_refuted", 0) + 1


def split_pipeline(ctx, mode, trace_path, prop, tag):
    """TLC prints the state at every split point; the harness runs prefix/suffix; TLC judges the relation"""
    cfg = "SplitTrace_%s.cfg" % prop
    r1 = ctx.tlc_trace("MachineTrace", "MachineTrace_SPLIT.cfg", trace_path, label="TLC prints the specification state at every split point (%s)" % tag)
    sp = [x[6:] for x in r1["printed"] if x.startswith("SPLIT ")]
    spath = trace_path + ".splits"
    open(spath, "w").write("\n".join(sp) + ("\n" if sp else ""))
    opath = trace_path + ".rel"
    summ = ctx.vh_json(["split", mode, trace_path, spath, opath])
    if summ["splits"] == 0:
        return summ, [], opath
    r2 = ctx.tlc_trace("SplitTrace", cfg, opath, label="TLC judges whole = prefix ++ suffix (%s)" % tag)
    return summ, [v for v in r2["viols"] if v["prop"] == prop], opath


def split_batches(ctx, corpus, mode, n, batches):
    prop = ctx.prop
    ctx.build()

    def one(b):
        path = os.path.join(ctx.work, "trace_%s_%d.ndjson" % (corpus, b))
        ctx.vh_json(["sem", corpus, ctx.seed * 1000 + b, n, path])
        return (path,) + split_pipeline(ctx, mode, path, prop, "corpus=%s batch=%d" % (corpus, b))

    with cf.ThreadPoolExecutor(max_workers=6) as ex:
        results = list(ex.map(one, range(batches)))
    seen = set()
    for path, summ, viols, opath in results:
        ctx.cov["evaluations"] += summ["splits"]
        ctx.cov["distinct_nontrivial"] += summ["nontrivial"]
        ctx.cov["traces_validated_against_impl"] += summ["cases"]
        for s in summ.get("samples") or []:
            if len(ctx.cov["samples"]) < 3:
                ctx.cov["samples"].append(s)
        if not viols:
            continue
        cases = group_cases(path)
        for v in viols:
            if (v["what"]) in seen or len(ctx.violations) >= 3:
                continue
            for attempt in range(3):     # (order-of-iteration dependent candidates may need more than one attempt)
                hits, rp = confirm_split(ctx, mode, prop, cases[v["id"]][0])
                if hits:
                    break
            if hits:
                seen.add(v["what"])
                ctx.add_violation("%s: %s (split after statement %s) | script: %s" % (prop, v["what"], v.get("k"), cases[v["id"]][0]["text"].replace("\n", " ")[:300]), rp)
            else:
                ctx.__dict__.setdefault("unreproduced", []).append(v)


def confirm_split(ctx, mode, prop, case):
    rp = dict(kind="split", mode=mode, property=prop, case={k: case[k] for k in ("id", "corpus", "text", "rawvars", "bal", "meta", "flagovd", "varvals")})
    path = os.path.join(ctx.work, "cand%d.json" % len(os.listdir(ctx.work)))
    json.dump(dict(rp, kind="sem"), open(path, "w"))
    fresh = ctx.vh_json(["rerun", path])["lines"]
    tpath = path + ".ndjson"
    with open(tpath, "w") as f:
        for l in fresh:
            f.write(json.dumps(l) + "\n")
    summ, viols, opath = split_pipeline(ctx, mode, tpath, prop, "confirmation")
    rp["relation_lines"] = read_ndjson(opath) if os.path.exists(opath) else []
    rp["tlc"] = viols
    return viols, rp


def scale_lift(ctx, n, prop="C06"):
    """amounts beyond TLC's integers: exact small splits validated by TLC, then scaled by 2^31 .. 10^30 on the real code"""
    vcfg = "ValueTrace_%s.cfg" % prop
    sp = os.path.join(ctx.work, "scale_small.ndjson")
    op = os.path.join(ctx.work, "scale.ndjson")
    summ = ctx.vh_json(["allot-scale", ctx.seed, n, sp, op])
    scfg = "MachineTrace_C03.cfg" if prop == "C03" else "MachineTrace_C06.cfg"
    r1 = ctx.tlc_trace("MachineTrace", scfg, sp, label="small exact splits of the scaling lift")
    r2 = ctx.tlc_trace("ValueTrace", vcfg, op, label="scaled runs: U x small shares (U up to 10^30)")
    ctx.cov["evaluations"] += 2 * summ["cases"]
    ctx.cov["big_amount_cases"] = summ["cases"]
    ctx.cov["traces_validated_against_impl"] += summ["cases"]
    ctx.cov["samples"] += (summ["samples"] or [])[:1]
    viols = [v for v in r1["viols"] + r2["viols"] if v["prop"] == prop]
    if viols:
        lines = {x["n"]: x for x in read_ndjson(op)}
        v = viols[0]
        x = lines.get(v["id"], {})
        # confirm by regenerating the same corpus in a fresh process
        summ2 = ctx.vh_json(["allot-scale", ctx.seed, n, sp + "2", op + "2"])
        r3 = ctx.tlc_trace("ValueTrace", vcfg, op + "2", label="confirmation")
        r4 = ctx.tlc_trace("MachineTrace", scfg, sp + "2", label="confirmation")
        if [w for w in r3["viols"] + r4["viols"] if w["prop"] == prop]:
            ctx.add_violation(prop + ": %s | factor %s | script: %s | vars %s | small %s | big %s" % (v["what"], x.get("factor"), str(x.get("text", "")).replace("\n", " ")[:300], x.get("rawvars"), x.get("small"), x.get("big")),
                              dict(kind="scale", property=prop, seed=ctx.seed, n=n, case=x))
        else:
            raise Infra("candidate did not reproduce: %s" % v)


def scale_sem(ctx, corpus, cfg, n):
    """generic scaling lift (sends without allotments): small case validated by TLC, the same case with every number x U on the real code"""
    prop = ctx.prop
    sp = os.path.join(ctx.work, "ssem_small_%s.ndjson" % corpus)
    op = os.path.join(ctx.work, "ssem_%s.ndjson" % corpus)
    summ = ctx.vh_json(["scale-sem", corpus, prop, ctx.seed, n, sp, op])
    r1 = ctx.tlc_trace("MachineTrace", cfg, sp, label="small cases of the scaling lift (%s)" % corpus)
    r2 = ctx.tlc_trace("ValueTrace", "ValueTrace_Scaled.cfg", op, label="scaled runs (factors 2^31 .. 10^30) (%s)" % corpus)
    ctx.cov["evaluations"] += 2 * summ["cases"]
    ctx.cov["big_amount_cases"] = ctx.cov.get("big_amount_cases", 0) + summ["cases"]
    ctx.cov["traces_validated_against_impl"] += summ["cases"]
    ctx.cov["samples"] += (summ["samples"] or [])[:1]
    viols = [v for v in r1["viols"] + r2["viols"] if v["prop"] == prop]
    if viols:
        lines = {x["n"]: x for x in read_ndjson(op)}
        v = viols[0]
        x = lines.get(v["id"], {})
        ctx.vh_json(["scale-sem", corpus, prop, ctx.seed, n, sp + "2", op + "2"])
        r3 = ctx.tlc_trace("ValueTrace", "ValueTrace_Scaled.cfg", op + "2", label="confirmation")
        r4 = ctx.tlc_trace("MachineTrace", cfg, sp + "2", label="confirmation")
        if [w for w in r3["viols"] + r4["viols"] if w["prop"] == prop]:
            ctx.add_violation("%s: %s | factor %s | script: %s | vars %s | balances %s | small %s %s | big %s %s" % (prop, v["what"], x.get("factor"), str(x.get("text", "")).replace("\n", " ")[:300],
                              x.get("rawvars"), x.get("bal"), x.get("smallst"), x.get("small"), x.get("st"), x.get("big")),
                              dict(kind="scale", property=prop, seed=ctx.seed, n=n, case=x))
        else:
            raise Infra("candidate did not reproduce: %s" % v)


def repo_corpus(ctx, cfg, prop=None):
    """the repository's own interpreter tests (scripts, balances, variables, metadata harvested at check time) as a corpus"""
    import subprocess, sys
    from .core import REPO, VERIF
    prop = prop or ctx.prop
    hp = os.path.join(ctx.work, "harvest.json")
    p = subprocess.run([sys.executable, os.path.join(VERIF, "tools", "harvest.py"), REPO, hp], capture_output=True, text=True)
    if p.returncode != 0:
        ctx.notes.append("harvesting the repository's tests failed (corpus skipped): %s" % p.stderr[-300:])
        return
    tp = os.path.join(ctx.work, "repo_tests.ndjson")
    summ = ctx.vh_json(["sem-file", hp, tp])
    if summ["cases"] == 0:
        ctx.notes.append("no repository test could be harvested")
        return
    r = ctx.tlc_trace("MachineTrace", cfg, tp, label="executions of the repository's own interpreter tests")
    ctx.cov["evaluations"] += summ["cases"]
    ctx.cov["traces_validated_against_impl"] += summ["cases"]
    ctx.cov["repo_test_executions_validated"] = summ["cases"]
    mine = [v for v in r["viols"] if v["prop"] == prop or v["prop"] in also]
    if mine:
        cases = group_cases(tp)
        v = mine[0]
        lines = cases[v["id"]]
        hits, rp = confirm_sem(ctx, cfg, lines, prop)
        if hits:
            ctx.add_violation("%s: %s | (a script of the repository's own tests) %s" % (prop, v["what"], lines[0]["text"].replace("\n", " ")[:300]), rp)
        else:
            raise Infra("candidate violation did not reproduce: %s" % v)


def family_replay(ctx, fam, cfg, prop=None, also=()):
    """every member of the exhaustive SemMC.tla family (printed by TLC) is run on the real interpreter and judged by TLC"""
    from .checks_store import gen_lines
    prop = prop or ctx.prop
    gens = gen_lines(ctx, "SemMC", "SemMC_gen_%s_%s.cfg" % (fam, ctx.tier), "every member of the exhaustive '%s' family (program x balance sheet)" % fam, workers=8)
    gp = os.path.join(ctx.work, "family_%s.ndjson" % fam)
    open(gp, "w").write("\n".join(gens) + "\n")
    tp = os.path.join(ctx.work, "family_%s_trace.ndjson" % fam)
    summ = ctx.vh_json(["sem-gen", gp, tp], timeout=3600)
    # the trace is cut at case boundaries into pieces TLC can hold (a set of more than 10^6 lines is refused)
    pieces, cur, n = [], None, 0
    with open(tp) as f:
        for line in f:
            if '"e":"case"' in line:
                if cur is None or n >= 250000:
                    if cur:
                        cur.close()
                    pieces.append(os.path.join(ctx.work, "family_%s_trace_%d.ndjson" % (fam, len(pieces))))
                    cur, n = open(pieces[-1], "w"), 0
            cur.write(line)
            n += 1
    if cur:
        cur.close()

    def val(pth):
        return ctx.tlc_trace("MachineTrace", cfg, pth, label="TLC judges the real runs of the exhaustive '%s' family" % fam, timeout=7200)

    viols_all = []
    with cf.ThreadPoolExecutor(max_workers=4) as ex:
        for pth, rr in zip(pieces, ex.map(val, pieces)):
            viols_all.extend(rr["viols"])
    r = {"viols": viols_all}
    ctx.cov["evaluations"] += summ["cases"]
    ctx.cov["distinct_nontrivial"] += summ["distinct_shapes"]
    ctx.cov["traces_validated_against_impl"] += summ["cases"]
    ctx.cov["exhaustive_family_members_replayed"] = ctx.cov.get("exhaustive_family_members_replayed", 0) + summ["cases"]
    ctx.cov["samples"] += (summ.get("samples") or [])[:1]
    mine = [v for v in r["viols"] if v["prop"] == prop or v["prop"] in also]
    if mine:
        cases = group_cases(tp)
        seen = set()
        for v in mine:
            if v["what"] in seen or len(ctx.violations) >= 5:
                continue
            lines = cases[v["id"]]
            hits, rp = confirm_sem(ctx, cfg, lines, v["prop"])
            if hits:
                seen.add(v["what"])
                ctx.add_violation("%s: %s | (member of the exhaustive family) script: %s | balances %s" % (prop, v["what"], lines[0]["text"].replace("\n", " ")[:300], lines[0]["bal"]), rp)
            else:
                raise Infra("candidate violation did not reproduce: %s" % v)
