"""Shared machinery of the vcheck runner: work directories, building the Go
harness from the tree under test, running TLC, parsing its output, evidence
and verdict bookkeeping.  Exit codes: 0 held, 1 violation (reproduced),
2 infrastructure trouble (never a verdict)."""
import json, os, re, shutil, subprocess, sys, time, glob

VERIF = os.path.dirname(os.path.dirname(os.path.abspath(__file__)))
REPO = os.environ.get("VERIF_REPO", "/repo")
TLC_JAR = "/opt/veriftools/tla/tla2tools.jar"
CM_JAR = "/opt/veriftools/tla/CommunityModules-deps.jar"


class Infra(Exception):
    """infrastructure failure: exit 2"""


def goenv():
    e = dict(os.environ)
    e.update(GOFLAGS="-mod=mod", GOPROXY="off", GOSUMDB="off", GOTOOLCHAIN="local")
    e.setdefault("GOCACHE", os.path.join(VERIF, ".work", "gocache"))
    return e


class Ctx:
    def __init__(self, prop, tier, seed):
        self.prop = prop
        self.tier = tier
        self.seed = seed
        self.t0 = time.time()
        self.work = os.path.join(VERIF, ".work", "%s.%d" % (prop, os.getpid()))
        shutil.rmtree(self.work, ignore_errors=True)
        os.makedirs(self.work)
        self.vh = None
        self.violations = []      # confirmed: dicts with 'what', 'replay'
        self.known_hits = []
        self.cov = dict(evaluations=0, distinct_nontrivial=0, states=0, transitions=0,
                        traces_validated_against_impl=0, samples=[], tlc_runs=[])
        self.assumptions = []
        self.notes = []
        self.tlc_n = 0

    # ------------------------------------------------------------------ build
    def build(self, race=False):
        if self.vh and not race:
            return self.vh
        b = os.path.join(self.work, "hbuild")
        os.makedirs(b, exist_ok=True)
        for f in glob.glob(os.path.join(VERIF, "harness", "*.go")):
            shutil.copy(f, b)
        tmpl = open(os.path.join(VERIF, "harness", "go.mod.tmpl")).read()
        open(os.path.join(b, "go.mod"), "w").write(tmpl.replace("@REPO@", REPO))
        shutil.copy(os.path.join(REPO, "go.sum"), b)
        hooks = os.path.exists(os.path.join(REPO, "internal", "interpreter", "verif_on.go"))
        self.hooks = hooks
        tags = "verif,vhooks" if hooks else "verif"
        out = os.path.join(self.work, "vh_race" if race else "vh")
        cmd = ["go", "build", "-tags", tags, "-o", out]
        if race:
            cmd.insert(2, "-race")
        cmd.append(".")
        p = subprocess.run(cmd, cwd=b, env=goenv(), capture_output=True, text=True)
        if p.returncode != 0:
            raise Infra("harness build failed:\n" + p.stdout + p.stderr)
        if not race:
            self.vh = out
        return out

    def run_vh(self, args, timeout=1800, race=False, check=True, env=None, stdin=None):
        exe = self.build(race=race)
        e = goenv()
        if env:
            e.update(env)
        p = subprocess.run([exe] + [str(a) for a in args], cwd=self.work, env=e, capture_output=True, text=True,
                           timeout=timeout, input=stdin)
        if check and p.returncode != 0:
            raise Infra("vh %s failed (%d):\n%s\n%s" % (" ".join(map(str, args)), p.returncode, p.stdout[-2000:], p.stderr[-4000:]))
        return p

    def vh_json(self, args, **kw):
        p = self.run_vh(args, **kw)
        lines = [x for x in p.stdout.splitlines() if x.strip()]
        try:
            return json.loads(lines[-1])
        except Exception:
            raise Infra("vh %s: no JSON summary:\n%s" % (args, p.stdout[-2000:]))

    # -------------------------------------------------------------------- TLC
    def tlc(self, module, cfg, env=None, workers=1, timeout=1800, simulate=None, depth=None, extra=None, label=None,
            coverage=False):
        """Run TLC on spec/<module>.tla with spec/<cfg>; returns dict(out, states, distinct, viols, ok, printed)"""
        self.tlc_n += 1
        d = os.path.join(self.work, "tlc%d" % self.tlc_n)
        os.makedirs(d)
        for f in glob.glob(os.path.join(VERIF, "spec", "*.tla")) + glob.glob(os.path.join(VERIF, "spec", "*.cfg")):
            shutil.copy(f, d)
        e = dict(os.environ)
        # a deep evaluation stack for the recursive operators (a StackOverflowError is an infrastructure failure, never a verdict)
        e["JAVA_TOOL_OPTIONS"] = "-Dfile.encoding=UTF-8 -Dstdout.encoding=UTF-8 -Xss256m"
        if env:
            e.update({k: str(v) for k, v in env.items()})
        cmd = ["tlc", "-workers", str(workers), "-metadir", os.path.join(d, "meta"), "-config", cfg]
        if simulate:
            cmd += ["-simulate", simulate]
        if depth:
            cmd += ["-depth", str(depth)]
        if coverage:
            cmd += ["-coverage", "1"]
        if extra:
            cmd += extra
        cmd.append(module + ".tla")
        t = time.time()
        try:
            p = subprocess.run(cmd, cwd=d, env=e, capture_output=True, text=True, timeout=timeout)
        except subprocess.TimeoutExpired:
            raise Infra("TLC timeout on %s/%s" % (module, cfg))
        out = p.stdout + p.stderr
        res = dict(out=out, rc=p.returncode, wall=time.time() - t, module=module, cfg=cfg)
        m = re.search(r"(\d+) states generated, (\d+) distinct states found", out)
        res["states"] = int(m.group(2)) if m else 0
        res["generated"] = int(m.group(1)) if m else 0
        m = re.search(r"The number of states generated: (\d+)", out)      # simulation mode
        if m and not res["generated"]:
            res["generated"] = int(m.group(1))
            res["states"] = int(m.group(1))
        printed = []
        viols = []
        for line in out.splitlines():
            s = line.strip()
            if s.startswith('"') and s.endswith('"'):
                try:
                    s2 = json.loads(s)
                except Exception:
                    s2 = s[1:-1].replace('\\"', '"').replace("\\\\", "\\")
                if s2.startswith("VIOL "):
                    try:
                        viols.append(json.loads(s2[5:]))
                    except Exception:
                        raise Infra("unparseable VIOL line: " + s)
                else:
                    printed.append(s2)
        res["viols"] = viols
        res["printed"] = printed
        bad = None
        for pat in ("Error: The .* threw an unexpected exception", "Error: TLC threw", "java.lang.", "Parsing or semantic analysis failed",
                    "Error: Evaluating", "Attempted to", "Error: In evaluation", "was not completely specified",
                    "StackOverflowError", "Error: The first argument", "Unknown operator", "TLC encountered"):
            if re.search(pat, out):
                bad = pat
                break
        res["inv_violated"] = re.findall(r"Error: Invariant (\S+) is violated", out)
        res["post_false"] = "Postcondition" in out and "is false" in out
        res["tlc_error"] = bad
        res["finished"] = "Finished in" in out or "Model checking completed" in out
        self.cov["tlc_runs"].append(dict(module=module, cfg=cfg, label=label or "", states=res["states"], generated=res["generated"],
                                         wall_s=round(res["wall"], 2), workers=workers))
        open(os.path.join(d, "out.txt"), "w").write(out)
        res["dir"] = d
        return res

    def tlc_mc(self, module, cfg, workers=16, timeout=3600, label=None, env=None, count=True):
        """exhaustive model checking of a design-level config: must finish with no error"""
        r = self.tlc(module, cfg, workers=workers, timeout=timeout, label=label or "design-level model checking", env=env)
        if r["tlc_error"] or not r["finished"]:
            raise Infra("TLC failed on %s/%s: %s\n%s" % (module, cfg, r["tlc_error"], tail(r["out"])))
        if r["inv_violated"] or "is violated" in r["out"] or r["post_false"]:
            # the specification itself violates its property: that is a defect of the machinery
            raise Infra("design-level property violated in %s/%s (specification error):\n%s" % (module, cfg, tail(r["out"], 60)))
        if count:
            self.cov["states"] += r["states"]
            self.cov["transitions"] += r["generated"]
        return r

    def tlc_trace(self, module, cfg, trace_path, env=None, timeout=1800, label=None):
        """trace validation: returns the list of VIOL records; raises Infra if the trace was not consumed"""
        e = {"TRACE": trace_path}
        if env:
            e.update(env)
        r = self.tlc(module, cfg, env=e, workers=1, timeout=timeout, label=label or "trace validation")
        if r["tlc_error"] or not r["finished"]:
            raise Infra("TLC failed on trace %s (%s/%s): %s\n%s" % (trace_path, module, cfg, r["tlc_error"], tail(r["out"], 40)))
        if r["post_false"] and not r["viols"]:
            raise Infra("trace not fully consumed (%s/%s):\n%s" % (module, cfg, tail(r["out"], 30)))
        if r["inv_violated"]:
            raise Infra("unexpected TLC invariant failure: %s" % r["inv_violated"])
        self.cov["states"] += r["states"]
        self.cov["transitions"] += r["generated"]
        return r

    # --------------------------------------------------------------- Apalache
    def apalache(self, module_text, name, inv="Inv", init="Init", length=0, timeout=600, next_=None):
        d = os.path.join(self.work, "apa%d" % self.tlc_n)
        self.tlc_n += 1
        os.makedirs(d)
        open(os.path.join(d, name + ".tla"), "w").write(module_text)
        t = time.time()
        try:
            p = subprocess.run(["apalache-mc", "check", "--init=" + init, "--inv=" + inv, "--length=%d" % length] +
                               (["--next=" + next_] if next_ else []) + [name + ".tla"],
                               cwd=d, capture_output=True, text=True, timeout=timeout)
        except subprocess.TimeoutExpired:
            raise Infra("apalache timeout")
        out = p.stdout + p.stderr
        ok = "The outcome is: NoError" in out
        err = "The outcome is: Error" in out
        if not ok and not err:
            raise Infra("apalache failed:\n" + tail(out, 30))
        self.cov.setdefault("apalache_runs", []).append(dict(module=name, init=init, inv=inv, next=next_ or "Next", length=length, ok=ok, wall_s=round(time.time() - t, 1)))
        shutil.rmtree(d, ignore_errors=True)
        return ok, out

    # --------------------------------------------------------------- verdicts
    def add_violation(self, what, replay_obj):
        os.makedirs(os.path.join(VERIF, "replays"), exist_ok=True)
        path = os.path.join(VERIF, "replays", "%s-seed%d-%d.json" % (self.prop, self.seed, len(self.violations)))
        json.dump(replay_obj, open(path, "w"), indent=1, sort_keys=True)
        self.violations.append(dict(what=what, replay=path))

    def finish(self, level, rule, exhaustive=False, extra_cov=None):
        # candidates that could not be shown again (e.g. dependent on the iteration order of a map) give no verdict,
        # unless another candidate of the same run was confirmed
        unrep = getattr(self, "unreproduced", [])
        if unrep and not self.violations:
            raise Infra("candidate violation(s) did not reproduce: %s" % unrep[:3])
        if unrep:
            self.notes.append("candidates that did not reproduce: %d" % len(unrep))
        cov = self.cov
        cov["rule"] = rule
        cov["exhaustive"] = bool(exhaustive)
        if extra_cov:
            cov.update(extra_cov)
        if not cov["samples"]:
            cov["samples"] = ["(no sample recorded)"]
        cov["samples"] = cov["samples"][:8]
        ev = dict(property_id=self.prop, tier=self.tier, seed=self.seed, level=level, coverage=cov,
                  assumptions=self.assumptions, wall_s=round(time.time() - self.t0, 2), violations=len(self.violations),
                  known_findings_observed=self.known_hits, notes=self.notes,
                  repo_head=git_head(), harness_hooks=getattr(self, "hooks", None))
        # evidence/ describes runs against /repo itself; a run against another tree (VERIF_REPO=<scratch worktree>, used
        # to evaluate seeded changes) writes its evidence under .work/ so that it never replaces the committed files
        evdir = os.path.join(VERIF, "evidence") if os.path.realpath(REPO) == "/repo" else os.path.join(VERIF, ".work", "evidence-other-tree")
        os.makedirs(evdir, exist_ok=True)
        tmp = os.path.join(evdir, ".%s.%d.tmp" % (self.prop, os.getpid()))
        json.dump(ev, open(tmp, "w"), indent=1, sort_keys=True)
        os.replace(tmp, os.path.join(evdir, self.prop + ".json"))
        for k in self.known_hits:
            print("KNOWN-FINDING: property=%s %s" % (self.prop, k))
        for v in self.violations:
            print("VIOLATION property=%s replay=%s" % (self.prop, v["replay"]))
            print("  " + v["what"])
        shutil.rmtree(self.work, ignore_errors=True)
        print("%s %s tier=%s seed=%d evaluations=%d states=%d wall=%.1fs" % (
            self.prop, "VIOLATED" if self.violations else "held", self.tier, self.seed, cov["evaluations"], cov["states"],
            time.time() - self.t0))
        return 1 if self.violations else 0


def tail(s, n=25):
    return "\n".join(s.splitlines()[-n:])


def git_head():
    try:
        return subprocess.run(["git", "-C", REPO, "rev-parse", "--short", "HEAD"], capture_output=True, text=True).stdout.strip()
    except Exception:
        return ""


def read_ndjson(path):
    out = []
    with open(path) as f:
        for line in f:
            line = line.strip()
            if line:
                out.append(json.loads(line))
    return out


def load_known():
    p = os.path.join(VERIF, "known_findings.json")
    if not os.path.exists(p):
        return []
    return json.load(open(p)).get("findings", [])
