"""C10 / C12 (store part): Machine.tla model checking, TLC-generated behaviours replayed into the real
interpreter through a scripted store, groups of real runs judged by StoreTrace.tla."""
import json, os
from .core import Infra, read_ndjson


def gen_lines(ctx, module, cfg, label, workers=1, timeout=1800):
    g = ctx.tlc(module, cfg, workers=workers, label=label, timeout=timeout)
    if g["tlc_error"] or not g["finished"]:
        raise Infra("behaviour generation failed (%s/%s): %s" % (module, cfg, g["tlc_error"]))
    out = [x[4:] for x in g["printed"] if x.startswith("GEN ")]
    if not out:
        raise Infra("TLC generated no behaviours (%s/%s)" % (module, cfg))
    ctx.cov["states"] += g["states"]
    ctx.cov["transitions"] += g["generated"]
    return out


def judge_groups(ctx, path, prop, label):
    r = ctx.tlc_trace("StoreTrace", "StoreTrace_%s.cfg" % prop, path, label=label)
    viols = [v for v in r["viols"] if v["prop"] == prop]
    if not viols:
        return
    groups = {g["id"]: g for g in read_ndjson(path)}
    seen = set()
    for v in viols:
        if v["what"] in seen or len(ctx.violations) >= 3:
            continue
        g = groups[v["id"]]
        bad = g["runs"][v["run"] - 1]
        ref = [x for x in g["runs"] if not x["faulted"]][:1]
        runs = [dict(modes=x["modes"], fault=x["fault"]) for x in ref + [bad]]
        rp = dict(kind="store", property=prop, case=dict(text=g["text"], bal=g["bal"], meta=g["meta"], rawvars=g["rawvars"], flagovd=g.get("flagovd", False), runs=runs))
        # (a violation that depends on map iteration order may need more than one attempt to show again)
        if any(confirm_store(ctx, rp) for _ in range(4)):
            seen.add(v["what"])
            ctx.add_violation("%s: %s | store behaviour %s (fault at call %s) -> %s %s ; reference behaviour %s -> %s %s | script: %s" % (
                prop, v["what"], bad["modes"], bad["fault"], bad["st"], bad["post"], ref[0]["modes"] if ref else None, ref[0]["st"] if ref else None,
                ref[0]["post"] if ref else None, g["text"].replace("\n", " ")[:300]), rp)
        else:
            ctx.__dict__.setdefault("unreproduced", []).append(v)


def confirm_store(ctx, rp):
    p = os.path.join(ctx.work, "cand%d.json" % len(os.listdir(ctx.work)))
    json.dump(rp, open(p, "w"))
    ctx.vh_json(["store-replay", p, p + ".out"])
    r = ctx.tlc_trace("StoreTrace", "StoreTrace_%s.cfg" % rp["property"], p + ".out", label="confirmation")
    rp["observed"] = read_ndjson(p + ".out")
    return [v for v in r["viols"] if v["prop"] == rp["property"]]


def store_check(ctx, prop):
    ctx.build()
    ctx.tlc_mc("Machine", "Machine_%s.cfg" % ctx.tier,
               label="Machine.tla: store protocol under every reply shape and fault position (C10/C12 invariants, design level)")
    # vacuity guard: the pinned tree's replacing cache must be refuted by the same invariant
    r = ctx.tlc("Machine", "Machine_replace.cfg", workers=16, label="named deviation Merge=replace must violate C10_StoreIndependent")
    if "C10_StoreIndependent" not in " ".join(r["inv_violated"]):
        raise Infra("Machine.tla with Merge=replace was not refuted: the C10 invariant is vacuous")
    # behaviours of Machine.tla replayed into the real interpreter
    gens = gen_lines(ctx, "Machine", "Machine_gen_%s.cfg" % ctx.tier, "behaviour generation (program, content, reply shapes, fault position)")
    gp = os.path.join(ctx.work, "gen.ndjson")
    open(gp, "w").write("\n".join(gens) + "\n")
    op = os.path.join(ctx.work, "groups.ndjson")
    s1 = ctx.vh_json(["store-gen", gp, op])
    judge_groups(ctx, op, prop, "groups of real runs of the Machine.tla family")
    # the exhaustive two-asset, three-statement family (late or missing requests)
    fam = gen_lines(ctx, "StoreFam", "StoreFam_%s.cfg" % ctx.tier, "StoreFam.tla: every short sequence of sends and saves over two assets", timeout=3000)
    fp = os.path.join(ctx.work, "fam.ndjson")
    open(fp, "w").write("\n".join(fam) + "\n")
    op3 = os.path.join(ctx.work, "groups3.ndjson")
    s3 = ctx.vh_json(["store-gen", fp, op3])
    judge_groups(ctx, op3, prop, "groups of real runs of the StoreFam.tla family")
    ctx.cov["evaluations"] += s3["runs"]
    ctx.cov["distinct_nontrivial"] += s3["nontrivial"]
    ctx.cov["traces_validated_against_impl"] += s3["groups"]
    ctx.cov["tlc_behaviours_replayed_family"] = s3["behaviours"]
    # random programs biased to early requests x TLC-enumerated reply-shape sequences
    seqs = gen_lines(ctx, "StoreEnv", "StoreEnv.cfg", "all reply-shape sequences up to 4 calls")
    sp = os.path.join(ctx.work, "modeseqs.ndjson")
    open(sp, "w").write("\n".join(seqs) + "\n")
    n = 3000 if ctx.tier == "quick" else 20000
    op2 = os.path.join(ctx.work, "groups2.ndjson")
    s2 = ctx.vh_json(["store-rand", ctx.seed, n, op2, sp])
    judge_groups(ctx, op2, prop, "groups of real runs of random origin-heavy programs")
    ctx.cov["evaluations"] += s1["runs"] + s2["runs"]
    ctx.cov["distinct_nontrivial"] += s1["nontrivial"] + s2["nontrivial"]
    ctx.cov["traces_validated_against_impl"] += s1["groups"] + s2["groups"]
    ctx.cov["tlc_behaviours_replayed"] = s1["behaviours"]
    ctx.cov["faulted_runs"] = s1["faulted_runs"] + s2["faulted_runs"]
    ctx.cov["samples"] += (s1["samples"] or [])[:2] + (s2["samples"] or [])[:2]
    if s1["dropped"] or s2["dropped"]:
        ctx.notes.append("unparsable generated programs dropped: %d" % (s1["dropped"] + s2["dropped"]))
