"""Property id -> check function."""
import json, os, sys
from .core import Ctx, Infra, VERIF
from . import checks_sem as sem

CHECKS = {}


def check(pid):
    def deco(f):
        CHECKS[pid] = f
        return f
    return deco


def scale(ctx, quick, thorough):
    return thorough if ctx.tier == "thorough" else quick


TRUST = ["TLC 1.8 / tla2tools (model checker and evaluator of the specification)",
         "CommunityModules Json/IOUtils (trace input)",
         "the harness projector parser.Program -> abstract syntax and the generator's knowledge of the typed value behind each variable text",
         "numbers in traces stay below 2^31 (generators use small integers); larger amounts are covered only by the scaling / Apalache parts where stated"]


@check("C01")
def c01(ctx):
    ctx.assumptions += TRUST
    ctx.tlc_mc("SemMC", "SemMC_prog_%s.cfg" % ctx.tier, label="C01_Sem on two-statement programs (design level)")
    n, b = scale(ctx, (2500, 4), (6000, 16))
    sem.trace_batches(ctx, "mixed", "MachineTrace_C01.cfg", n, b)
    sem.trace_batches(ctx, "multi", "MachineTrace_C01.cfg", n, b)
    return ctx.finish("model_checking", sem.NONTRIV_RULE)


@check("C02")
def c02(ctx):
    ctx.assumptions += TRUST
    ctx.tlc_mc("SemMC", "SemMC_prog_%s.cfg" % ctx.tier, label="C02_Sem on two-statement programs (design level)")
    n, b = scale(ctx, (2500, 4), (6000, 16))
    sem.trace_batches(ctx, "mixed", "MachineTrace_C02.cfg", n, b)
    sem.trace_batches(ctx, "pair", "MachineTrace_C02.cfg", n, b)
    return ctx.finish("model_checking", sem.NONTRIV_RULE)


@check("C03")
def c03(ctx):
    ctx.assumptions += TRUST
    ctx.tlc_mc("SemMC", "SemMC_src_%s.cfg" % ctx.tier, label="C03_Sem capacity lemma on the source family (design level)")
    n, b = scale(ctx, (2500, 6), (6000, 24))
    sem.trace_batches(ctx, "exact", "MachineTrace_C03.cfg", n, b)
    return ctx.finish("model_checking", sem.NONTRIV_RULE)


@check("C04")
def c04(ctx):
    ctx.assumptions += TRUST
    ctx.tlc_mc("SemMC", "SemMC_src_%s.cfg" % ctx.tier, label="C04_Sem greedy-draw lemmas on the source family (design level)")
    n, b = scale(ctx, (2500, 6), (6000, 24))
    sem.trace_batches(ctx, "src", "MachineTrace_C04.cfg", n, b)
    return ctx.finish("model_checking", sem.NONTRIV_RULE)


@check("C05")
def c05(ctx):
    ctx.assumptions += TRUST
    ctx.tlc_mc("SemMC", "SemMC_dst_%s.cfg" % ctx.tier, label="C05_Sem clause-by-clause lemmas on the destination family (design level)")
    n, b = scale(ctx, (2500, 6), (6000, 24))
    sem.trace_batches(ctx, "dst", "MachineTrace_C05.cfg", n, b)
    return ctx.finish("model_checking", sem.NONTRIV_RULE)


def replay(path):
    rp = json.load(open(path))
    prop = rp.get("property", "C00")
    ctx = Ctx(prop + "replay", "quick", 0)
    try:
        if rp["kind"] == "sem":
            hits, rp2 = sem.confirm_sem(ctx, rp["cfg"], [rp["case"]], prop)
            print(json.dumps(rp2.get("observed"), indent=1)[:3000])
            import shutil
            shutil.rmtree(ctx.work, ignore_errors=True)
            if hits:
                print("VIOLATION property=%s replay=%s" % (prop, path))
                for h in hits:
                    print("  ", h["what"])
                return 1
            print("not reproduced")
            return 0
        from . import replay_other
        return replay_other.replay(ctx, rp, path)
    except Infra as e:
        print("INFRASTRUCTURE ERROR (no verdict): %s" % e)
        return 2
