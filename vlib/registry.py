"""Property id -> check function."""
import json, os, sys
from .core import Ctx, Infra, VERIF
from . import checks_sem as sem
from . import checks_store as store
from . import checks_front as front

CHECKS = {}


def check(pid):
    def deco(f):
        CHECKS[pid] = f
        return f
    return deco


def scale(ctx, quick, thorough):
    return thorough if ctx.tier == "thorough" else quick


TRUST = ["TLC 1.8 / tla2tools (model checker and evaluator of the specification)",
         "CommunityModules Json/IOUtils (trace input)",
         "the harness projector parser.Program -> abstract syntax and the generator's knowledge of the typed value behind each variable text",
         "numbers in traces stay below 2^31 (generators use small integers); larger amounts are covered only by the scaling / Apalache parts where stated"]


@check("C01")
def c01(ctx):
    ctx.assumptions += TRUST
    ctx.tlc_mc("SemMC", "SemMC_prog_%s.cfg" % ctx.tier, label="C01_Sem on two-statement programs (design level)")
    if ctx.tier == "thorough":
        ctx.assumptions.append("Apalache 0.58 + Z3 for the inductive invariant of DrawApa.tla (balances, amount, caps, grants are unbounded integers)")
        sem.inductive_apalache(ctx, "DrawApa", guards=[("IndInit", "NextBad", "IndInvFinal", 1), ("Init", None, "NeverShort", 3)])
    n, b = scale(ctx, (2500, 4), (6000, 16))
    sem.trace_batches(ctx, "mixed", "MachineTrace_C01.cfg", n, b)
    sem.trace_batches(ctx, "multi", "MachineTrace_C01.cfg", n, b)
    sem.trace_batches(ctx, "pair", "MachineTrace_C01.cfg", n, b)    # several sources x several destinations: a posting attributed to the wrong source overdraws it
    sem.scale_sem(ctx, "multi", "MachineTrace_C01.cfg", scale(ctx, 1500, 15000))
    sem.family_replay(ctx, "src", "MachineTrace_C01.cfg")          # every member of the exhaustive source family (bounded overdrafts on negative balances, zero shares first, ...)
    if ctx.tier == "thorough":
        sem.family_replay(ctx, "prog", "MachineTrace_C01.cfg")     # every two-statement program of the design-level family on the real interpreter
    sem.repo_corpus(ctx, "MachineTrace_C01.cfg")
    return ctx.finish("model_checking", sem.NONTRIV_RULE)


@check("C02")
def c02(ctx):
    ctx.assumptions += TRUST
    ctx.tlc_mc("SemMC", "SemMC_prog_%s.cfg" % ctx.tier, label="C02_Sem on two-statement programs (design level)")
    n, b = scale(ctx, (2500, 4), (6000, 16))
    sem.trace_batches(ctx, "mixed", "MachineTrace_C02.cfg", n, b)
    sem.scale_lift(ctx, 500 if ctx.tier == "quick" else 5000, prop="C02")   # allotments of amounts around 2^63 / 2^64 and up to 10^30: every posting stays a real transfer
    sem.trace_batches(ctx, "pair", "MachineTrace_C02.cfg", n, b)
    sem.repo_corpus(ctx, "MachineTrace_C02.cfg")
    return ctx.finish("model_checking", sem.NONTRIV_RULE)


@check("C03")
def c03(ctx):
    ctx.assumptions += TRUST
    ctx.tlc_mc("SemMC", "SemMC_src_%s.cfg" % ctx.tier, label="C03_Sem capacity lemma on the source family (design level)")
    if ctx.tier == "thorough":
        ctx.assumptions.append("Apalache 0.58 + Z3 for the inductive invariant of DrawApa.tla (balances, amount, caps, grants are unbounded integers)")
        sem.inductive_apalache(ctx, "DrawApa", guards=[("IndInit", "NextBad", "IndInvFinal", 1), ("Init", None, "NeverShort", 3)])
        sem.inductive_apalache(ctx, "ReconcileApa", guards=[("IndInit", "NextBad", "IndInvFinal", 1), ("Init", None, "NeverDone", 8)])
    n, b = scale(ctx, (2500, 6), (6000, 24))
    sem.trace_batches(ctx, "exact", "MachineTrace_C03.cfg", n, b)
    sem.scale_sem(ctx, "exact", "MachineTrace_C03.cfg", scale(ctx, 1500, 15000))
    sem.scale_lift(ctx, 500 if ctx.tier == "quick" else 5000, prop="C03")   # sends through allotments of amounts around 2^63 / 2^64 and up to 10^30 move exactly the amount
    sem.family_replay(ctx, "src", "MachineTrace_C03.cfg")
    sem.repo_corpus(ctx, "MachineTrace_C03.cfg")
    return ctx.finish("model_checking", sem.NONTRIV_RULE)


@check("C04")
def c04(ctx):
    ctx.assumptions += TRUST
    ctx.tlc_mc("SemMC", "SemMC_src_%s.cfg" % ctx.tier, label="C04_Sem greedy-draw lemmas on the source family (design level)")
    # the same draw over unbounded integers, the same account named several times: inductive invariant by Apalache
    ctx.assumptions.append("Apalache 0.58 + Z3 for the inductive invariant of DrawApa.tla (balances, amount, caps, grants are unbounded integers)")
    sem.inductive_apalache(ctx, "DrawApa", guards=[("IndInit", "NextBad", "IndInvFinal", 1), ("Init", None, "NeverShort", 3)])
    n, b = scale(ctx, (2500, 6), (6000, 24))
    sem.trace_batches(ctx, "src", "MachineTrace_C04.cfg", n, b)
    sem.scale_sem(ctx, "src", "MachineTrace_C04.cfg", scale(ctx, 1500, 15000))
    sem.family_replay(ctx, "src", "MachineTrace_C04.cfg")
    return ctx.finish("model_checking", sem.NONTRIV_RULE)


@check("C05")
def c05(ctx):
    ctx.assumptions += TRUST
    ctx.tlc_mc("SemMC", "SemMC_dst_%s.cfg" % ctx.tier, label="C05_Sem clause-by-clause lemmas on the destination family (design level)")
    # the same distribution over unbounded integers (negative caps, a destination named several times, kept): inductive invariant by Apalache
    ctx.assumptions.append("Apalache 0.58 + Z3 for the inductive invariant of DistApa.tla (amount and caps are unbounded integers)")
    sem.inductive_apalache(ctx, "DistApa", guards=[("IndInit", "NextBad", "IndInvFinal", 1), ("Init", None, "NeverAll", 4)])
    n, b = scale(ctx, (2500, 6), (6000, 24))
    sem.trace_batches(ctx, "dst", "MachineTrace_C05.cfg", n, b)
    sem.scale_sem(ctx, "dst", "MachineTrace_C05.cfg", scale(ctx, 1500, 15000))
    sem.family_replay(ctx, "dst", "MachineTrace_C05.cfg")
    return ctx.finish("model_checking", sem.NONTRIV_RULE)


@check("C06")
def c06(ctx):
    ctx.assumptions += TRUST
    ctx.assumptions.append("Apalache 0.58 + Z3 for the unbounded-n lemmas (typed twin of Sem!Allot generated per portion vector)")
    ctx.tlc_mc("AllotMC", "AllotMC_%s.cfg" % ctx.tier, label="C06_Sem: all portion vectors over small denominators x totals (design level)")
    if ctx.tier == "thorough":
        ctx.tlc_mc("AllotMC", "AllotMC_len4.cfg", label="C06_Sem: vectors of length 4 over denominators up to 5")
    vecs = [([1, 2, 4], 7), ([1, 1], 2)] if ctx.tier == "quick" else \
        [([1, 2, 4], 7), ([1, 1], 2), ([1, 1, 1], 3), ([15, 30, 55], 100), ([1, 999], 1000), ([0, 5, 0, 7], 12), ([3, 3, 3, 3, 4], 16), ([1, 59], 60)]
    sem.allot_apalache(ctx, vecs)
    n, b = scale(ctx, (3000, 6), (8000, 24))
    sem.trace_batches(ctx, "allot", "MachineTrace_C06.cfg", n, b)
    sem.scale_lift(ctx, 600 if ctx.tier == "quick" else 6000)
    return ctx.finish("model_checking", "single-allotment sends (source side: each clause from its own unbounded-overdraft account; destination side: "
                      "each clause to its own account or kept) with literal / percent / variable portions and optional remaining, totals 0..10^5; "
                      "distinct = distinct (tree shape, outcome, number of postings); non-trivial = >= 2 postings or rejected sum")


@check("C07")
def c07(ctx):
    ctx.assumptions += TRUST
    ctx.build()
    ctx.tlc_mc("Reconcile", "Reconcile_%s.cfg" % ctx.tier,
               label="Reconcile.tla refines Sem!Pair: all sender/receiver lists up to the bound, kept anywhere (design level)")
    # unbounded amounts: the same machine, typed, with an inductive invariant discharged by Apalache (lists up to 3 + 3)
    ctx.assumptions.append("Apalache 0.58 + Z3 for the inductive invariant of ReconcileApa.tla (amounts are unbounded integers)")
    sem.inductive_apalache(ctx, "ReconcileApa", guards=[("IndInit", "NextBad", "IndInvFinal", 1), ("Init", None, "NeverDone", 8)])
    # behaviour generation: every initial state of Reconcile.tla is printed by TLC and fed to the real interpreter.Reconcile
    g = ctx.tlc("Reconcile", "Reconcile_gen_%s.cfg" % ctx.tier, workers=1, label="behaviour generation for interpreter.Reconcile")
    if g["tlc_error"] or not g["finished"]:
        raise Infra("generation failed: %s" % g["tlc_error"])
    gens = [x[4:] for x in g["printed"] if x.startswith("GEN ")]
    if not gens:
        raise Infra("TLC generated no behaviours")
    gp = os.path.join(ctx.work, "rec_in.ndjson")
    open(gp, "w").write("\n".join(gens) + "\n")
    op = os.path.join(ctx.work, "rec_out.ndjson")
    summ = ctx.vh_json(["rec", gp, op])
    r = ctx.tlc_trace("ReconcileTrace", "ReconcileTrace.cfg", op, label="judging interpreter.Reconcile on the generated lists")
    ctx.cov["evaluations"] += summ["cases"]
    ctx.cov["distinct_nontrivial"] += summ["nontrivial"]
    ctx.cov["traces_validated_against_impl"] += summ["cases"]
    ctx.cov["reconcile_lists_exhaustive"] = summ["cases"]
    ctx.cov["samples"] += summ["samples"] or []
    if r["viols"]:
        recs = {x["id"]: x for x in __import__("vlib.core", fromlist=["read_ndjson"]).read_ndjson(op)}
        seen = set()
        for v in r["viols"]:
            if v["what"] in seen:
                continue
            seen.add(v["what"])
            rec = recs[v["id"]]
            # confirm in a fresh process
            cp = os.path.join(ctx.work, "c.ndjson")
            open(cp, "w").write(json.dumps({"snd": rec["snd"], "rcv": rec["rcv"]}) + "\n")
            ctx.vh_json(["rec", cp, cp + ".out"])
            again = ctx.tlc_trace("ReconcileTrace", "ReconcileTrace.cfg", cp + ".out", label="confirmation")
            if again["viols"]:
                ctx.add_violation("C07 (direct call of interpreter.Reconcile): %s | senders=%s receivers=%s postings=%s | factor %s -> %s" % (v["what"], rec["snd"], rec["rcv"], rec["post"], rec.get("factor"), rec.get("bigpost")),
                                  dict(kind="rec", property="C07", case={"snd": rec["snd"], "rcv": rec["rcv"]}, observed=rec["post"]))
            else:
                raise Infra("candidate did not reproduce")
    n, b = scale(ctx, (2500, 4), (6000, 16))
    sem.trace_batches(ctx, "pair", "MachineTrace_C07.cfg", n, b)
    sem.trace_batches(ctx, "pairvars", "MachineTrace_C07.cfg", n, b)     # amounts / caps through re-used variables, several statements
    sem.scale_sem(ctx, "pair", "MachineTrace_C07.cfg", scale(ctx, 1000, 10000))   # amounts around and beyond 2^63 / 2^64
    sem.repo_corpus(ctx, "MachineTrace_C07.cfg")
    return ctx.finish("model_checking", "exhaustive: all sender/receiver lists up to the bound (Reconcile.tla initial states, equal sums) fed to interpreter.Reconcile; "
                      "plus random whole sends of the 'pair' corpus judged on flow matrices; non-trivial = >= 2 postings")


@check("C08")
def c08(ctx):
    ctx.assumptions += TRUST
    ctx.assumptions.append("relational check: both sides are real executions; the specification supplies the visible balance after the save (printed by TLC)")
    ctx.tlc_mc("SemMC", "SemMC_prog_%s.cfg" % ctx.tier, label="C08_Sem: what was saved cannot be moved without an overdraft grant (design level)")
    # saves followed by the greedy draw, every number a symbolic unbounded integer: inductive invariant by Apalache
    ctx.assumptions.append("Apalache 0.58 + Z3 for the inductive invariant of SaveApa.tla (balances, saved amounts, caps, grants are unbounded integers)")
    sem.inductive_apalache(ctx, "SaveApa", guards=[("IndInit", "NextBad", "IndInvFinal", 1), ("Init", None, "NeverShort", 6)])
    n, b = scale(ctx, (3000, 4), (8000, 16))
    sem.split_batches(ctx, "save", "c08", n, b)
    sem.trace_batches(ctx, "save", "MachineTrace_C08.cfg", n, min(b, 4))
    # every "save, then draw" program of the exhaustive family (amount below / at / above the balance, save-all, bounded and
    # unbounded overdrafts after it, the feature flag on for every other member): the statement after the save must behave as
    # the reference semantics says on the balance the save left visible
    sem.family_replay(ctx, "save", "MachineTrace_SAVE.cfg", also=("C01", "C02", "C03", "C04", "C07"))
    sem.scale_sem(ctx, "save", "MachineTrace_C08.cfg", scale(ctx, 1500, 15000))
    return ctx.finish("model_checking", "scripts of the 'save' corpus (1-5 statements, saves placed anywhere among probing sends: send-all and exact sends, with and "
                      "without bounded overdraft, balances negative/zero/positive); one evaluation = one save-split (whole vs prefix + suffix on the TLC-printed "
                      "visible balance, with the save-deleted control); non-trivial = the statements after the save produce postings; plus every member of the exhaustive save-then-draw family of SemMC.tla (judged against the reference semantics on the balance the save left visible)")


@check("C09")
def c09(ctx):
    ctx.assumptions += TRUST
    ctx.assumptions.append("relational check: three real executions per split point; the intermediate state is printed by TLC from the logged postings and the save formula")
    ctx.tlc_mc("SemMC", "SemMC_prog_%s.cfg" % ctx.tier, label="two-statement programs of the semantics (design level)")
    n, b = scale(ctx, (2500, 4), (6000, 16))
    sem.split_batches(ctx, "multi", "c09", n, b)
    sem.split_batches(ctx, "pairvars", "c09", n, b)      # amounts, caps and bounds through re-used number / monetary variables
    # the same corpus with every number beyond 2^64: later statements and the final read-back of the variables must see the values given
    sem.scale_sem(ctx, "pairvars", "MachineTrace_C09.cfg", scale(ctx, 1000, 8000))
    sem.trace_batches(ctx, "multi", "MachineTrace_C09.cfg", n, min(b, 4), also=("META",))
    return ctx.finish("model_checking", "multi-statement scripts without balance-reading variables; one evaluation = one (script, split point k): whole run vs statements 1..k "
                      "on B and k+1..n on the state TLC printed; non-trivial = both halves produce postings")


@check("C10")
def c10(ctx):
    ctx.assumptions += TRUST
    ctx.assumptions.append("relational check: a group of real executions of one program on one content must agree; the harness's scripted store is trusted to implement the four reply shapes")
    store.store_check(ctx, "C10")
    return ctx.finish("model_checking", "one evaluation = one real run of a program under one store behaviour (reply shape per call from Machine.tla / StoreEnv.tla, "
                      "plus exact/sparse/superset/static); a group (program x content) is non-trivial when some run makes >= 2 store calls; plus every member of StoreFam.tla (all sequences of up to three sends / saves over two assets on the same accounts, with and without a balance() origin, over contents that lack entries or hold one for @world) under the exact, sparse, whole-content and static stores")


@check("C12")
def c12(ctx):
    ctx.assumptions += TRUST
    ctx.assumptions.append("the generator's tag for deliberately unreadable variable texts (which error class a clearly invalid text of a type must give)")
    # store faults: Machine.tla with StoreFail at every call (design level) + every fault position replayed into the real interpreter
    store.store_check(ctx, "C12")
    n, b = scale(ctx, (3000, 4), (8000, 16))
    sem.trace_batches(ctx, "illtyped", "MachineTrace_C12.cfg", n, b)
    sem.trace_batches(ctx, "mixed", "MachineTrace_C12.cfg", n, max(2, b // 2))
    # every member of the source family with one account / cap / bound replaced by an expression of another type or an unknown name
    sem.family_replay(ctx, "ill", "MachineTrace_C12.cfg")
    sem.repo_corpus(ctx, "MachineTrace_C12.cfg")
    return ctx.finish("fault_enumeration", "two families: (a) store faults - for every program of the Machine.tla family and of a random origin-heavy corpus, "
                      "a failure injected at the k-th store call for every k (TLC enumerates k and the reply shapes of the calls before it); "
                      "(b) error-free-parsing programs, well-typed and broken in 0-2 places (types, names, arity, variable texts, assets, zero denominators), "
                      "judged by TLC against MayFail/MustFail of SemErr.tla; non-trivial = a run that fails while executing or makes >= 2 store calls; "
                      "distinct by (statement shape, outcome class, postings) resp. by program x content; plus the exhaustive ill-typed family (every source-family member with one expression replaced by another type or an unknown name)")


@check("C11")
def c11(ctx):
    import subprocess
    from .core import goenv, read_ndjson
    ctx.assumptions += TRUST
    ctx.assumptions.append("Go race detector for data races proper (gated replays synchronise and therefore hide races from it, hence both)")
    ctx.build()
    ctx.tlc_mc("Concurrent", "Concurrent_deep_%s.cfg" % ctx.tier, label="Concurrent.tla, Merge=deep: inputs untouched, no conflicting overlap, results as when run alone; all interleavings")
    for cfg, inv in (("Concurrent_shallow.cfg", "InputsUntouched"), ("Concurrent_alias.cfg", "InputsUntouched"), ("Concurrent_shallow_race.cfg", "NoRace")):
        r = ctx.tlc("Concurrent", cfg, workers=4, label="named deviation must violate " + inv)
        if inv not in " ".join(r["inv_violated"]):
            raise Infra("Concurrent.tla %s was not refuted (vacuous invariant)" % cfg)
    scheds = store.gen_lines(ctx, "Concurrent", "Concurrent_gen.cfg", "every interleaving of two runs at gate granularity")
    sp = os.path.join(ctx.work, "scheds.ndjson")
    open(sp, "w").write("\n".join(scheds) + "\n")
    n = 3000 if ctx.tier == "quick" else 20000
    op = os.path.join(ctx.work, "conc.ndjson")
    # the exhaustive "save, then draw" family as further cases (the feature flag on / off must not change any of them)
    famp = os.path.join(ctx.work, "conc_family.ndjson")
    open(famp, "w").write("\n".join(store.gen_lines(ctx, "SemMC", "SemMC_gen_save_quick.cfg", "the 'save' family as cases for the purity / flag comparisons", workers=8)) + "\n")
    # the exhaustive family "a variable in every syntactic position that can hold one" (ShapeFam.tla) with inputs of the declared
    # types: one parsed script, run with other variable texts in between, against both kinds of store
    from .checks_front import family_gen
    _, varfam, nvf = family_gen(ctx, None, "concvars", scope="names", trees_only=True)
    ctx.cov["variable_position_family"] = nvf
    def run_conc(out):
        """the harness process itself dies when the Go runtime detects concurrent map access: that is interference, not infrastructure"""
        p = ctx.run_vh(["conc", ctx.seed, n, out, sp], check=False, env={"VERIF_CONC_FAMILY": famp, "VERIF_CONC_VARFAM": varfam})
        if p.returncode != 0:
            if "concurrent map" in p.stderr:
                return None, p.stderr
            raise Infra("vh conc failed (%d):\n%s" % (p.returncode, p.stderr[-3000:]))
        return json.loads([x for x in p.stdout.splitlines() if x.strip()][-1]), ""
    summ, crash = run_conc(op)
    if summ is None:
        summ2, crash2 = run_conc(op + ".again")
        first = [l for l in crash.splitlines() if "fatal error" in l][:1]
        ctx.add_violation("C11: concurrent Run calls on one parsed script / store crash the process: %s%s" % (first, "" if summ2 is None else " (did not recur on a second run: schedule-dependent)"),
                          dict(kind="race", property="C11", seed=ctx.seed, n=n, report=crash[:3000]))
        return ctx.finish("model_checking", "see rule of the full run; this run stopped at a runtime-detected concurrent map access")
    r = ctx.tlc_trace("ConcTrace", "ConcTrace.cfg", op, label="purity / determinism / gated interleavings of real runs")
    ctx.cov["evaluations"] += summ["runs"]
    ctx.cov["distinct_nontrivial"] += summ["nontrivial"]
    ctx.cov["traces_validated_against_impl"] += summ["cases"]
    ctx.cov["schedules_from_tlc"] = len(scheds)
    ctx.cov["samples"] += summ["samples"] or []
    lines = read_ndjson(op)
    shared = sum(1 for x in lines if x["identity"]["sharedInt"] or x["identity"]["sharedInner"] or x["identity"]["sameOuter"])
    ctx.cov["merge_constant_observed"] = "deep" if shared == 0 else "alias/shallow in %d of %d cases (hook identity facts; predicts interference)" % (shared, len(lines))
    if not summ.get("hooks"):
        ctx.notes.append("hooks absent: gated interleavings degenerate to free-running goroutines")
    if r["viols"]:
        by_id = {x["id"]: x for x in lines}
        seen = set()
        for v in r["viols"]:
            if v["what"] in seen or len(ctx.violations) >= 4:
                continue
            seen.add(v["what"])
            # confirm: regenerate the same corpus in a fresh process and judge again
            op2 = os.path.join(ctx.work, "conc2.ndjson")
            s2, crash2 = run_conc(op2)
            if s2 is None:
                ctx.add_violation("C11: concurrent Run calls crash the process (concurrent map access) | %s" % v["what"], dict(kind="race", property="C11", seed=ctx.seed, n=n, report=crash2[:3000]))
                break
            r2 = ctx.tlc_trace("ConcTrace", "ConcTrace.cfg", op2, label="confirmation")
            if any(w["what"] == v["what"] for w in r2["viols"]):
                x = by_id[v["id"]]
                ctx.add_violation("C11: %s | script: %s" % (v["what"], x["text"].replace("\n", " ")[:300]),
                                  dict(kind="conc", property="C11", seed=ctx.seed, n=n, case=x))
            else:
                raise Infra("candidate did not reproduce: %s" % v)
    # free-running goroutines under the race detector
    exe = ctx.build(race=True)
    nr = 400 if ctx.tier == "quick" else 4000
    e = goenv()
    e["GORACE"] = "halt_on_error=1 exitcode=66"
    def race_once():
        return subprocess.run([exe, "conc", str(ctx.seed), str(nr), os.path.join(ctx.work, "race.ndjson"), sp, "free"], cwd=ctx.work, env=e, capture_output=True, text=True, timeout=1800)
    p = race_once()
    if p.returncode == 66 or "WARNING: DATA RACE" in p.stderr:
        p2 = race_once()
        if p2.returncode == 66 or "WARNING: DATA RACE" in p2.stderr:
            rep = p2.stderr[:3000]
            ctx.add_violation("C11: data race between concurrent Run calls sharing one ParseResult / store / variables map\n" + rep[:1500],
                              dict(kind="race", property="C11", seed=ctx.seed, n=nr, report=rep))
        else:
            ctx.notes.append("a race report did not reproduce on a second run; not reported")
    elif p.returncode != 0:
        raise Infra("race run failed: %s" % p.stderr[-2000:])
    else:
        rs = json.loads([x for x in p.stdout.splitlines() if x.strip()][-1])
        ctx.cov["race_detector_runs"] = rs["runs"]
        ctx.cov["evaluations"] += rs["runs"]
        r3 = ctx.tlc_trace("ConcTrace", "ConcTrace.cfg", os.path.join(ctx.work, "race.ndjson"), label="free-running goroutines: results equal the run executed alone")
        if r3["viols"]:
            v = r3["viols"][0]
            ctx.add_violation("C11 (free-running goroutines): %s" % v["what"], dict(kind="conc", property="C11", seed=ctx.seed, n=nr, free=True))
    return ctx.finish("model_checking", "one evaluation = one real run; per case: alone, twice on shared store objects, 3 repetitions, flag on/off, two goroutines under "
                      "2 TLC-chosen interleavings, 8 free goroutines under the race detector; non-trivial = the script produces postings; a re-run with other variable texts in between against a freshly parsed copy; error messages compared between repetitions; the exhaustive save family as further cases")


@check("C13")
def c13(ctx):
    ctx.assumptions += ["TLC evaluates Lex!PortionValue (base-ten value of a spelling) and Sem!Render", "the harness decodes a rendered 'a/b' into two integers",
                        "numerals longer than 9 digits are covered by the scaling lift (same value spelled with 1 to 40 more digits renders identically) and by opaque transport"]
    front.c13(ctx)
    return ctx.finish("model_checking", "exhaustive: every ratio / percentage spelling over the digit alphabet and lengths of Portions_<tier>.cfg with value in [0,1] "
                      "(leading zeros, optional spaces), each through 4 channels (literal / variable x rendered value / split) plus long-numeral variants; "
                      "round trip: listed + random values of the six types (numbers and monetaries up to 60 digits, any sign) through metadata and back; "
                      "non-trivial = spelling with leading zeros or spaces, value longer than 19 characters or with special characters", exhaustive=True)


@check("C15")
def c15(ctx):
    ctx.assumptions += ["TLC evaluates Syntax.tla (the printing machine is the specification of the concrete syntax: token order, separators, line/column counting)",
                        "the harness's pre-order walk over parser.Program and its flattening of the projected tree",
                        "characters outside the Basic Multilingual Plane are not generated (TLC strings are UTF-16)"]
    front.c15(ctx)
    return ctx.finish("model_checking", "trees from a grammar-complete generator (every alternative of every rule, typed or not, exotic lexemes) printed by Syntax.tla under "
                      "seeded layouts at every gap (3 seeds per tree) and under every layout of the alphabet at every single gap of small trees (exhaustive); "
                      "one evaluation = one printed text parsed by the real parser and compared node by node; non-trivial = >= 10 nodes with ranges; plus every text of LexFam.tla (up to 3 / 4 pieces of a 28-piece character alphabet): token list of the real lexer against Lexer!Lex")


@check("C16")
def c16(ctx):
    ctx.assumptions += ["TLC evaluates Static.tla (Valid is deliberately a subset of the scripts the language accepts) and the name walk over the node list of Syntax.tla",
                        "the harness's classification of diagnostics by Go type name"]
    front.c16(ctx)
    return ctx.finish("model_checking", "typed programs from the generator (all six types, variables in every position, bounded overdraft and caps under send-all), "
                      "two layouts each, and their name edits (delete / duplicate / rename a declaration, rename a use); Static!Valid decides which are asserted "
                      "error-free; the multiset of unbound / duplicate / unused diagnostics must equal Static!NameDiagSet at the exact token ranges; "
                      "non-trivial = a case with at least one expected name diagnostic; plus the exhaustive ShapeFam.tla families (every source tree of depth <= 2, optionally under one more cap, in a send and a send-all; every subset / order of two declarations against every small expression over the two names; a variable in every position; origins before / after the declarations they use)")


@check("C17")
def c17(ctx):
    ctx.assumptions += ["the generator's knowledge of which variable values are of the declared types", "error classes by Go type name"]
    front.c17(ctx)
    return ctx.finish("model_checking", "programs broken in 0-2 places (literal of another type, undeclared or mis-declared variable, wrong arity, unknown or misplaced function, "
                      "allotment / unbounded source under send-all), checked by analysis.CheckSource and executed with values of the declared types; "
                      "non-trivial = the checker reports no error (the implication's antecedent holds); plus the exhaustive ShapeFam.tla families, checked and executed with inputs of the declared types")


@check("C14")
def c14(ctx):
    ctx.assumptions += ["TLC evaluates Edit.tla (documents, line table) and Grammar.tla (token-level recognizer of Numscript.g4; validity is only asserted for documents made of whole tokens)",
                        "raw byte garbage and partial lexemes get the oracle-free predicates only (no panic, termination, located errors)"]
    ctx.tlc_mc("GrammarMC", "GrammarMC.cfg", workers=8, env={"TREES": accept_trees(ctx)}, timeout=900,
               label="Grammar!Accepts holds for every script the printer prints and fails when a bracket is removed (design level)")
    front.edit_check(ctx, "C14", "parser")
    front.c15(ctx, cfg="FrontTrace_C14.cfg", prop="C14")   # valid scripts under every layout: no panic, zero errors
    return ctx.finish("exploration", "documents of Edit.tla: every prefix at every character, every single token deletion / duplication / swap / replacement / insertion from an "
                      "alphabet of tokens and garbage (thorough: richer alphabet and all pairs of whole-token edits on small seeds), printed with two line layouts; "
                      "non-trivial = a document outside the language; plus the texts of the Syntax machine; the verdict of every document comes from Lexer!Lex of its characters and Grammar!Accepts of the token kinds; plus every text of LexFam.tla through the real lexer and parser (rejected characters, accepted <=> no error)")


def accept_trees(ctx):
    ctx.build()
    tp = os.path.join(ctx.work, "accept_trees.ndjson")
    ctx.vh_json(["syn-trees", ctx.seed, 100 if ctx.tier == "quick" else 1500, 3, tp])
    return tp


@check("C18")
def c18(ctx):
    ctx.assumptions += ["TLC evaluates Edit.tla (documents and their line table)", "hover / definition are probed at every column of every line including one past the end"]
    front.edit_check(ctx, "C18", "analysis")
    return ctx.finish("exploration", "documents of Edit.tla (see C14) x every cursor position: CheckSource twice, GetSymbols twice, HoverOn and GotoDefinition everywhere; "
                      "non-trivial = a document outside the language")


@check("C19")
def c19(ctx):
    ctx.assumptions += ["relational part: both sides are real servers (long-lived vs fresh); Lsp.tla supplies which text each reply must come from",
                        "stdout of the server is captured to read its publishDiagnostics notifications; symbol lists and diagnostic lists are compared as sets",
                        "navigation: the token table comes from Syntax.tla; positions at the end of a token are don't-care"]
    front.c19(ctx)
    return ctx.finish("model_checking", "exhaustive: every well-formed history of the bound of Lsp_<tier>.cfg (2 URIs x 3 texts x 2 probe positions, single and double content changes) "
                      "plus random histories of length 12 over 3 URIs; navigation: every cursor position of generated scripts and their name edits; "
                      "one evaluation = one reply compared; non-trivial = a query on an opened document resp. a position with a hover; navigation also on the ShapeFam.tla family of a variable in every syntactic position; transport: every cut schedule of Wire.tla (up to 2 / 3 cuts of a three-message request stream) replayed against the real binary")


@check("C20")
def c20(ctx):
    ctx.assumptions += ["translation validation between two entry points: the library call made by the harness mirrors what `numscript run` is meant to compute (parser.Parse + interpreter.RunProgram on a StaticStore, json.Marshal of the result)",
                        "Cli.tla supplies the effective input (last provider per field wins); decoy values on the losing channels make a wrong choice observable"]
    front.c20(ctx)
    return ctx.finish("translation_validation", "generated scripts of every outcome class (ok, run-time errors of all classes, syntax errors), amounts beyond 2^64 in balances and variables, "
                      "x channel configurations enumerated by Cli.tla (4096: each of script / variables / balances / metadata provided by any subset of --raw, file options, --stdin); "
                      "`run --output-format json` and `check`; non-trivial = at least 5 (field, channel) providers in one invocation")


def selftest():
    """Demonstrates the binding between specification and code (not part of any verdict):
    (a) a recorded trace with one corrupted field is rejected by the property invariant,
    (b) a recorded trace with one event removed is not accepted (not fully consumed),
    (c) the recognizer / soundness / protocol modules refute their named deviations (done inside the checks as vacuity guards)."""
    import copy
    ctx = Ctx("selftest", "quick", 1)
    ctx.build()
    path = os.path.join(ctx.work, "t.ndjson")
    ctx.vh_json(["sem", "pair", 7, 300, path])
    from .core import read_ndjson
    lines = read_ndjson(path)
    ok = True
    r0 = ctx.tlc_trace("MachineTrace", "MachineTrace_C07.cfg", path, label="selftest: untouched trace")
    print("untouched trace: %d violations (expected 0)" % len(r0["viols"]))
    ok &= len(r0["viols"]) == 0
    # (a) corrupt one posting amount of one successful statement
    bad = copy.deepcopy(lines)
    for l in bad:
        if l["e"] == "stmt" and l["st"] == "ok" and len(l["post"]) >= 2:
            l["post"][0][2] += 1
            break
    p2 = os.path.join(ctx.work, "t_corrupt.ndjson")
    open(p2, "w").write("\n".join(json.dumps(x) for x in bad) + "\n")
    r1 = ctx.tlc_trace("MachineTrace", "MachineTrace_C07.cfg", p2, label="selftest: one amount corrupted")
    print("one logged amount + 1: %d violations reported by C07_Flow (expected >= 1)" % len(r1["viols"]))
    ok &= len(r1["viols"]) >= 1
    # (b) remove one outcome event: the trace must not be accepted
    cut = [x for i, x in enumerate(lines) if not (x["e"] == "outcome" and i > 10 and i < 40)]
    p3 = os.path.join(ctx.work, "t_cut.ndjson")
    open(p3, "w").write("\n".join(json.dumps(x) for x in cut) + "\n")
    try:
        ctx.tlc_trace("MachineTrace", "MachineTrace_C07.cfg", p3, label="selftest: outcome events removed")
        print("outcome events removed: ACCEPTED (unexpected)")
        ok = False
    except Infra as e:
        print("outcome events removed: rejected as expected (%s)" % str(e).splitlines()[0][:80])
    import shutil
    shutil.rmtree(ctx.work, ignore_errors=True)
    print("selftest", "passed" if ok else "FAILED")
    return 0 if ok else 2


def replay(path):
    rp = json.load(open(path))
    prop = rp.get("property", "C00")
    ctx = Ctx(prop + "replay", "quick", 0)
    try:
        if rp["kind"] == "sem":
            hits, rp2 = sem.confirm_sem(ctx, rp["cfg"], [rp["case"]], prop)
            print(json.dumps(rp2.get("observed"), indent=1)[:3000])
            import shutil
            shutil.rmtree(ctx.work, ignore_errors=True)
            if hits:
                print("VIOLATION property=%s replay=%s" % (prop, path))
                for h in hits:
                    print("  ", h["what"])
                return 1
            print("not reproduced")
            return 0
        if rp["kind"] == "split":
            viols, rp2 = sem.confirm_split(ctx, rp["mode"], prop, rp["case"])
            print(json.dumps(rp2.get("relation_lines"), indent=1)[:3000])
            if viols:
                print("VIOLATION property=%s replay=%s" % (prop, path))
                return 1
            print("not reproduced")
            return 0
        if rp["kind"] == "scale":
            print(json.dumps(rp.get("case"), indent=1)[:3000])
            return CHECKS[prop](Ctx(prop, "quick", int(rp.get("seed", 1))))
        if rp["kind"] in ("conc", "race"):
            print("re-run: VERIF_SEED=%s ./vcheck C11 (the corpus is regenerated from the seed); recorded case:" % rp.get("seed"))
            print(json.dumps(rp.get("case", rp.get("report")), indent=1)[:3000])
            os.environ["VERIF_SEED"] = str(rp.get("seed", 1))
            c = Ctx("C11", "quick", int(rp.get("seed", 1)))
            return CHECKS["C11"](c)
        if rp["kind"] in ("front", "diag", "nav", "c17"):
            hits = front.confirm_front(ctx, rp)
            print(json.dumps(rp.get("observed_again"), indent=1)[:3000])
            if hits:
                print("VIOLATION property=%s replay=%s" % (prop, path))
                return 1
            print("not reproduced")
            return 0
        if rp["kind"] == "cli":
            print("re-run with: ./vcheck C20 (the binary is rebuilt from the tree); recorded invocation:")
            print(json.dumps({k: rp["case"][k] for k in ("args", "stdin", "exit", "stdout", "libst", "libjson")}, indent=1)[:3000])
            return CHECKS["C20"](Ctx("C20", "quick", 1))
        if rp["kind"] == "generic":
            hits = front.rerun_generic(ctx, rp)
            print(json.dumps(rp.get("observed_again"), indent=1)[:3000])
            if hits:
                print("VIOLATION property=%s replay=%s" % (prop, path))
                return 1
            print("not reproduced")
            return 0
        if rp["kind"] == "wire":
            print("recorded: request stream written in pieces ending at offsets %s; observed %s" % (rp["cuts"], json.dumps(rp["observed"])[:1500]))
            print("re-running the transport part of C19 (the binary is rebuilt from the tree)")
            c = Ctx("C19", "quick", 1)
            c.build()
            front.wire_check(c)
            if c.violations:
                print("VIOLATION property=%s replay=%s" % (prop, path))
                return 1
            print("not reproduced")
            return 0
        if rp["kind"] == "lex":
            hits = front.confirm_lex(ctx, rp)
            print(json.dumps(rp.get("observed_again"), indent=1)[:3000])
            if hits:
                print("VIOLATION property=%s replay=%s" % (prop, path))
                return 1
            print("not reproduced")
            return 0
        if rp["kind"] == "edit":
            hits = front.confirm_edit(ctx, rp)
            print(json.dumps(rp.get("observed_again"), indent=1)[:3000])
            if hits:
                print("VIOLATION property=%s replay=%s" % (prop, path))
                return 1
            print("not reproduced")
            return 0
        if rp["kind"] == "value":
            hits = front.confirm_value(ctx, rp)
            print(json.dumps(rp.get("observed_again"), indent=1)[:3000])
            if hits:
                print("VIOLATION property=%s replay=%s" % (prop, path))
                return 1
            print("not reproduced")
            return 0
        if rp["kind"] == "store":
            hits = store.confirm_store(ctx, rp)
            print(json.dumps(rp.get("observed"), indent=1)[:3000])
            if hits:
                print("VIOLATION property=%s replay=%s" % (prop, path))
                return 1
            print("not reproduced")
            return 0
        if rp["kind"] == "rec":
            cp = os.path.join(ctx.work, "c.ndjson")
            open(cp, "w").write(json.dumps(rp["case"]) + "\n")
            ctx.vh_json(["rec", cp, cp + ".out"])
            again = ctx.tlc_trace("ReconcileTrace", "ReconcileTrace.cfg", cp + ".out", label="replay")
            print(open(cp + ".out").read())
            if again["viols"]:
                print("VIOLATION property=%s replay=%s" % (prop, path))
                return 1
            print("not reproduced")
            return 0
        from . import replay_other
        return replay_other.replay(ctx, rp, path)
    except Infra as e:
        print("INFRASTRUCTURE ERROR (no verdict): %s" % e)
        return 2
