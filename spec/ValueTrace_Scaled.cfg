SPECIFICATION Spec
INVARIANTS Scaled
POSTCONDITION Post
CHECK_DEADLOCK FALSE
