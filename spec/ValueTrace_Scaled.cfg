SPECIFICATION Spec
INVARIANTS Scaled ScaledVars
POSTCONDITION Post
CHECK_DEADLOCK FALSE
