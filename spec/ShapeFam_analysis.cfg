SPECIFICATION Spec
CONSTANTS Scope = "analysis"
INVARIANTS Emit
CHECK_DEADLOCK FALSE
