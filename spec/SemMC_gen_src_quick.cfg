SPECIFICATION Spec
CONSTANTS Family = "src"
 Scope = "quick"
 Emit = TRUE
INVARIANTS EmitInv
CHECK_DEADLOCK FALSE
