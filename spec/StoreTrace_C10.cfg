SPECIFICATION Spec
INVARIANTS C10_Group
POSTCONDITION Post
CHECK_DEADLOCK FALSE
