SPECIFICATION Spec
INVARIANTS C14_PrinterInLanguage C14_UnbalancedRejected
CHECK_DEADLOCK FALSE
