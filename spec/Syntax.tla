------------------------------- MODULE Syntax -------------------------------
(***************************************************************************)
(* Concrete syntax as a printing machine (C13 C15 C16 C19).                *)
(*                                                                         *)
(* A script tree (abstract syntax of Sem.tla, with the spelling of portion *)
(* literals kept in `lex`) is flattened to tokens; every node records its  *)
(* first and last token.  The machine then emits ONE TOKEN PER STEP,       *)
(* choosing the layout before it from an alphabet (spaces, tab, newline,   *)
(* CR LF, blank lines, block and line comments with non-ASCII characters,  *)
(* nothing next to punctuation), builds the text, and maintains line and   *)
(* column (in characters, reset after a newline) and the span of every     *)
(* token.  At the end it knows the text, the expected tree, and for every  *)
(* node the expected range "first character of its first token .. just    *)
(* past its last token" - which is printed as one JSON line and compared   *)
(* with what the real parser / checker / hover return.                     *)
(*                                                                         *)
(* Layouts: mode "seeded" derives the choice at every gap from a seed      *)
(* (pseudo-random but reproducible); mode "onegap" puts one chosen layout  *)
(* at one chosen gap (exhaustive: every gap x every layout).               *)
(***************************************************************************)
EXTENDS Printer, Grammar, Lexer, Json, IOUtils, SequencesExt

Trees == ndJsonDeserialize(IOEnv.TREES)
CONSTANTS Seeds,      \* set of seeds for mode "seeded"
          OneGap,     \* TRUE: mode "onegap"
          WithStatic  \* TRUE: also print Static!Valid and the expected name diagnostics

\* (texts carried in TLC state variables are ASCII only: TLC's disk-backed state queue keeps one byte per character and
\*  sign-extends it on the way back; the placeholder ^ is replaced by accented / Cyrillic / CJK / astral characters by the
\*  harness after printing, which keeps every position because positions count code points)
\* ---- layout and positions ----------------------------------------------
Lay == <<" ", "\n", "  ", "\t", " /* ^ c */ ", "\r\n", " // x ^\n", "\n\n ", " /* a\n b */", " \t ", "\r", " \r ", "\n\r">>
Punct == {"[", "]", "{", "}", "(", ")", "=", ",", "*"}
Tight(prev, cur) == prev \in Punct \/ cur \in Punct
LayFor(seed, i, prev, cur) ==
  LET c == ((seed * 7) + (i * 13) + ((seed * i) % 5)) % (Len(Lay) + 3) IN
  IF i = 1 THEN (IF (c % 3) = 0 THEN "" ELSE IF c <= Len(Lay) /\ c >= 1 THEN Lay[c] ELSE "")
  ELSE IF c >= Len(Lay) THEN (IF Tight(prev, cur) THEN "" ELSE " ") ELSE Lay[c + 1]
RECURSIVE Adv(_,_,_)
Adv(pos, s, i) == IF i > Len(s) THEN pos
                  ELSE Adv(IF SubSeq(s, i, i) = "\n" THEN [ln |-> pos.ln + 1, ch |-> 0] ELSE [ln |-> pos.ln, ch |-> pos.ch + 1], s, i + 1)

VARIABLES ti,      \* index of the tree being printed
          toks, nodes,
          mode,    \* [seed] or [gap, lay]
          i, pos, text, spans
vars == <<ti, toks, nodes, mode, i, pos, text, spans>>

Init == /\ ti \in 1..Len(Trees)
        /\ LET r == PProg(Trees[ti]) IN
           /\ toks = r.toks /\ nodes = r.nodes
           /\ IF OneGap THEN mode \in {[seed |-> 0, gap |-> g, lay |-> y] : g \in 1..Len(r.toks), y \in 1..Len(Lay)}
              ELSE mode \in {[seed |-> s, gap |-> 0, lay |-> 0] : s \in Seeds}
        /\ i = 1 /\ pos = [ln |-> 0, ch |-> 0] /\ text = "" /\ spans = <<>>

Emit == /\ i <= Len(toks)
        /\ LET prev == IF i = 1 THEN "" ELSE toks[i-1]
               lay == IF OneGap THEN (IF i = mode.gap THEN Lay[mode.lay] ELSE IF i = 1 \/ Tight(prev, toks[i]) THEN "" ELSE " ")
                      ELSE LayFor(mode.seed, i, prev, toks[i])
               st  == Adv(pos, lay, 1)
               en  == [ln |-> st.ln, ch |-> st.ch + Len(toks[i])]
           IN /\ pos' = en
              /\ text' = text \o lay \o toks[i]
              /\ spans' = Append(spans, [s |-> st, e |-> en])
        /\ i' = i + 1
        /\ UNCHANGED <<ti, toks, nodes, mode>>
Next == Emit
Spec == Init /\ [][Next]_vars

\* ---- invariants of the machine itself (C15 at design level) -------------------
Before(p, q) == p.ln < q.ln \/ (p.ln = q.ln /\ p.ch <= q.ch)
Done == i > Len(toks)
NSpan(n) == [s |-> spans[nodes[n].f].s, e |-> spans[nodes[n].l].e]
\* tokens appear in order without overlap; hence children lie within parents and siblings are ordered
C15_TokensOrdered == \A k \in 1..Len(spans) : Before(spans[k].s, spans[k].e) /\ (k > 1 => Before(spans[k-1].e, spans[k].s))
C15_Nesting == Done => \A m, n \in 1..Len(nodes) :
                  (nodes[m].f <= nodes[n].f /\ nodes[n].l <= nodes[m].l) => (Before(NSpan(m).s, NSpan(n).s) /\ Before(NSpan(n).e, NSpan(m).e))

\* ---- output ---------------------------------------------------------------------
Out == [id |-> Trees[ti].id, text |-> text \o "\n", mode |-> mode,
        nodes |-> [n \in 1..Len(nodes) |->
                   <<nodes[n].kind, spans[nodes[n].f].s.ln, spans[nodes[n].f].s.ch, spans[nodes[n].l].e.ln, spans[nodes[n].l].e.ch, nodes[n].name>>],
        flat |-> FProg(Trees[ti]),
        valid |-> WithStatic /\ Valid(Trees[ti]),
        names |-> IF WithStatic THEN SetToSeq({<<x[1], spans[nodes[x[2]].f].s.ln, spans[nodes[x[2]].f].s.ch, spans[nodes[x[2]].l].e.ln, spans[nodes[x[2]].l].e.ch, nodes[x[2]].name>>
                                              : x \in NameDiagSet(nodes)})
                  ELSE <<>>,
        maybe |-> IF WithStatic THEN SetToSeq({<<x[1], spans[nodes[x[2]].f].s.ln, spans[nodes[x[2]].f].s.ch, spans[nodes[x[2]].l].e.ln, spans[nodes[x[2]].l].e.ch, nodes[x[2]].name>>
                                              : x \in MaybeUnusedSet(nodes)})
                  ELSE <<>>]
\* the printed characters must read back as the printed tokens (Lexer!Lex): a layout that glues two lexemes together or lets
\* a string run on to a later quote describes another script than the tree, and is not emitted
LexAgrees == LET lx == Lex(text \o "\n") IN
             lx.errs = <<>> /\ Len(lx.toks) = Len(toks) /\ \A j \in 1..Len(toks) : lx.toks[j].t = toks[j]
C15_PrintedReadsBack == Done => LexAgrees
EmitInv == (Done /\ LexAgrees) => PrintT("GEN " \o ToJson(Out))
=============================================================================
