------------------------------- MODULE Syntax -------------------------------
(***************************************************************************)
(* Concrete syntax as a printing machine (C13 C15 C16 C19).                *)
(*                                                                         *)
(* A script tree (abstract syntax of Sem.tla, with the spelling of portion *)
(* literals kept in `lex`) is flattened to tokens; every node records its  *)
(* first and last token.  The machine then emits ONE TOKEN PER STEP,       *)
(* choosing the layout before it from an alphabet (spaces, tab, newline,   *)
(* CR LF, blank lines, block and line comments with non-ASCII characters,  *)
(* nothing next to punctuation), builds the text, and maintains line and   *)
(* column (in characters, reset after a newline) and the span of every     *)
(* token.  At the end it knows the text, the expected tree, and for every  *)
(* node the expected range "first character of its first token .. just    *)
(* past its last token" - which is printed as one JSON line and compared   *)
(* with what the real parser / checker / hover return.                     *)
(*                                                                         *)
(* Layouts: mode "seeded" derives the choice at every gap from a seed      *)
(* (pseudo-random but reproducible); mode "onegap" puts one chosen layout  *)
(* at one chosen gap (exhaustive: every gap x every layout).               *)
(***************************************************************************)
EXTENDS Lex, Static, Json, IOUtils, SequencesExt

Trees == ndJsonDeserialize(IOEnv.TREES)
CONSTANTS Seeds,      \* set of seeds for mode "seeded"
          OneGap,     \* TRUE: mode "onegap"
          WithStatic  \* TRUE: also print Static!Valid and the expected name diagnostics

\* ---- token/node algebra -------------------------------------------------
Empty == [toks |-> <<>>, nodes |-> <<>>]
Tok(lex) == [toks |-> <<lex>>, nodes |-> <<>>]
Shift(ns, k) == [i \in 1..Len(ns) |-> [ns[i] EXCEPT !.f = @ + k, !.l = @ + k]]
Cat2(a, b) == [toks |-> a.toks \o b.toks, nodes |-> a.nodes \o Shift(b.nodes, Len(a.toks))]
RECURSIVE Cat(_)
Cat(ps) == IF ps = <<>> THEN Empty ELSE Cat2(Head(ps), Cat(Tail(ps)))
\* a node: kind, first/last token, and a name for the nodes that carry one (variables, functions, types)
NodeN(kind, name, r) == [toks |-> r.toks, nodes |-> <<[kind |-> kind, name |-> name, f |-> 1, l |-> Len(r.toks)]>> \o r.nodes]
Node(kind, r) == NodeN(kind, "", r)

\* ---- lexemes ---------------------------------------------------------------
NumLex(n) == IF n < 0 THEN "-" \o ToString(0 - n) ELSE ToString(n)
PortionLex(e) == IF "lex" \in DOMAIN e THEN e.lex ELSE ToString(e.n) \o "/" \o ToString(e.d)

\* ---- printers -----------------------------------------------------------
RECURSIVE PE(_), PS(_), PD(_), PK(_), PEs(_,_), PSs(_,_), PSI(_,_), PDC(_,_), PDI(_,_)
PE(e) ==
  CASE e.k = "var"   -> NodeN("Variable", e.name, Tok("$" \o e.name))
    [] e.k = "acct"  -> Node("AccountLiteral", Tok("@" \o e.v))
    [] e.k = "asset" -> Node("AssetLiteral", Tok(e.v))
    [] e.k = "str"   -> Node("StringLiteral", Tok("\"" \o e.v \o "\""))
    [] e.k = "num"   -> Node("NumberLiteral", Tok(NumLex(e.v)))
    [] e.k = "portion" -> Node("RatioLiteral", Tok(PortionLex(e)))
    [] e.k = "mon"   -> Node("MonetaryLiteral", Cat(<<Tok("["), PE(e.asset), PE(e.amt), Tok("]")>>))
    [] e.k = "infix" -> Node("BinaryInfix", Cat(<<PE(e.l), Tok(e.op), PE(e.r)>>))
PA(p) == CASE p.k = "remaining" -> Node("RemainingAllotment", Tok("remaining")) [] OTHER -> PE(p)
PEs(es, i) == IF i > Len(es) THEN Empty ELSE Cat(<<IF i > 1 THEN Tok(",") ELSE Empty, PE(es[i]), PEs(es, i+1)>>)
PS(s) ==
  CASE s.k = "acct"  -> PE(s.e)
    [] s.k = "ovd"   -> Node("SourceOverdraft", Cat(<<PE(s.e), Tok("allowing"), Tok("overdraft"), Tok("up"), Tok("to"), PE(s.b)>>))
    [] s.k = "ovdu"  -> Node("SourceOverdraft", Cat(<<PE(s.e), Tok("allowing"), Tok("unbounded"), Tok("overdraft")>>))
    [] s.k = "seq"   -> Node("SourceInorder", Cat(<<Tok("{"), PSs(s.s, 1), Tok("}")>>))
    [] s.k = "cap"   -> Node("SourceCapped", Cat(<<Tok("max"), PE(s.c), Tok("from"), PS(s.s)>>))
    [] s.k = "allot" -> Node("SourceAllotment", Cat(<<Tok("{"), PSI(s.it, 1), Tok("}")>>))
PSs(ss, i) == IF i > Len(ss) THEN Empty ELSE Cat2(PS(ss[i]), PSs(ss, i+1))
PSI(it, i) == IF i > Len(it) THEN Empty
              ELSE Cat2(Node("SourceAllotmentItem", Cat(<<PA(it[i].p), Tok("from"), PS(it[i].s)>>)), PSI(it, i+1))
PK(k) == IF k.k = "kept" THEN Node("DestinationKept", Tok("kept")) ELSE Cat2(Tok("to"), PD(k))
PD(d) ==
  CASE d.k = "acct" -> PE(d.e)
    [] d.k = "ord"  -> Node("DestinationInorder", Cat(<<Tok("{"), PDC(d.cl, 1), Tok("remaining"), PK(d.rem), Tok("}")>>))
    [] d.k = "allot" -> Node("DestinationAllotment", Cat(<<Tok("{"), PDI(d.it, 1), Tok("}")>>))
PDC(cl, i) == IF i > Len(cl) THEN Empty
              ELSE Cat2(Node("DestinationInorderClause", Cat(<<Tok("max"), PE(cl[i].c), PK(cl[i].to)>>)), PDC(cl, i+1))
PDI(it, i) == IF i > Len(it) THEN Empty
              ELSE Cat2(Node("DestinationAllotmentItem", Cat(<<PA(it[i].p), PK(it[i].to)>>)), PDI(it, i+1))
PSent(st) == IF st.all THEN Node("SentValueAll", Cat(<<Tok("["), PE(st.sent), Tok("*"), Tok("]")>>))
             ELSE Node("SentValueLiteral", PE(st.sent))
PCall(c) == Node("FnCall", Cat(<<NodeN("FnCallIdentifier", c.name, Tok(c.name)), Tok("("), PEs(c.args, 1), Tok(")")>>))
PStmt(st) ==
  CASE st.k = "send" -> Node("SendStatement", Cat(<<Tok("send"), PSent(st), Tok("("), Tok("source"), Tok("="), PS(st.src),
                                                    Tok("destination"), Tok("="), PD(st.dst), Tok(")")>>))
    [] st.k = "save" -> Node("SaveStatement", Cat(<<Tok("save"), PSent(st), Tok("from"), PE(st.e)>>))
    [] st.k = "call" -> PCall(st)
PDecl(d) == Node("VarDeclaration", Cat(<<NodeN("TypeDecl", d.type, Tok(d.type)), NodeN("DeclName", d.name, Tok("$" \o d.name)),
                                         IF d.origin.k = "none" THEN Empty ELSE Cat2(Tok("="), PCall(d.origin))>>))
RECURSIVE PDecls(_,_), PStmts(_,_)
PDecls(ds, i) == IF i > Len(ds) THEN Empty ELSE Cat2(PDecl(ds[i]), PDecls(ds, i+1))
PStmts(ss, i) == IF i > Len(ss) THEN Empty ELSE Cat2(PStmt(ss[i]), PStmts(ss, i+1))
PProg(p) == Cat(<<IF p.vars = <<>> /\ ~("emptyvars" \in DOMAIN p /\ p.emptyvars) THEN Empty ELSE Cat(<<Tok("vars"), Tok("{"), PDecls(p.vars, 1), Tok("}")>>),
                  PStmts(p.stmts, 1)>>)

\* ---- the tree flattened to a list of strings (kinds and literal values, portions reduced) ----
RECURSIVE GcdS(_,_)
GcdS(a, b) == IF b = 0 THEN a ELSE GcdS(b, a % b)
RECURSIVE FE(_), FS(_), FD(_), FList(_,_,_)
FE(e) == CASE e.k = "var" -> <<"var", e.name>>
           [] e.k \in {"acct", "asset", "str"} -> <<e.k, e.v>>
           [] e.k = "num" -> <<"num", ToString(e.v)>>
           [] e.k = "portion" -> LET v == PortionValue(PortionLex(e))  g == GcdS(v.n, v.d) IN
                                 IF g = 0 THEN <<"portion", "0", "0">> ELSE <<"portion", ToString(v.n \div g), ToString(v.d \div g)>>
           [] e.k = "remaining" -> <<"remaining">>
           [] e.k = "mon" -> <<"mon(">> \o FE(e.asset) \o FE(e.amt) \o <<")">>
           [] e.k = "infix" -> <<"infix(", e.op>> \o FE(e.l) \o FE(e.r) \o <<")">>
\* op: 1 = FS, 2 = FD, 3 = FE, 4 = source item, 5 = dest item, 6 = clause
FList(xs, i, op) == IF i > Len(xs) THEN <<>>
   ELSE (CASE op = 1 -> FS(xs[i]) [] op = 2 -> FD(xs[i]) [] op = 3 -> FE(xs[i])
           [] op = 4 -> <<"item(">> \o FE(xs[i].p) \o FS(xs[i].s) \o <<")">>
           [] op = 5 -> <<"item(">> \o FE(xs[i].p) \o FD(xs[i].to) \o <<")">>
           [] op = 6 -> <<"clause(">> \o FE(xs[i].c) \o FD(xs[i].to) \o <<")">>) \o FList(xs, i + 1, op)
FS(s) == CASE s.k = "acct" -> <<"src(">> \o FE(s.e) \o <<")">>
           [] s.k = "ovd" -> <<"ovd(">> \o FE(s.e) \o FE(s.b) \o <<")">>
           [] s.k = "ovdu" -> <<"ovdu(">> \o FE(s.e) \o <<")">>
           [] s.k = "seq" -> <<"seq(">> \o FList(s.s, 1, 1) \o <<")">>
           [] s.k = "cap" -> <<"cap(">> \o FE(s.c) \o FS(s.s) \o <<")">>
           [] s.k = "allot" -> <<"sallot(">> \o FList(s.it, 1, 4) \o <<")">>
FD(d) == CASE d.k = "kept" -> <<"kept">>
           [] d.k = "acct" -> <<"dst(">> \o FE(d.e) \o <<")">>
           [] d.k = "ord" -> <<"ord(">> \o FList(d.cl, 1, 6) \o <<"rem">> \o FD(d.rem) \o <<")">>
           [] d.k = "allot" -> <<"dallot(">> \o FList(d.it, 1, 5) \o <<")">>
FStmt(st) == CASE st.k = "send" -> <<"send(", IF st.all THEN "all" ELSE "amount">> \o FE(st.sent) \o FS(st.src) \o FD(st.dst) \o <<")">>
               [] st.k = "save" -> <<"save(", IF st.all THEN "all" ELSE "amount">> \o FE(st.sent) \o FE(st.e) \o <<")">>
               [] st.k = "call" -> <<"call(", st.name>> \o FList(st.args, 1, 3) \o <<")">>
FDecl(d) == <<"decl(", d.type, d.name>> \o (IF d.origin.k = "none" THEN <<>> ELSE <<"=", d.origin.name>> \o FList(d.origin.args, 1, 3)) \o <<")">>
RECURSIVE FDecls(_,_), FStmts(_,_)
FDecls(ds, i) == IF i > Len(ds) THEN <<>> ELSE FDecl(ds[i]) \o FDecls(ds, i + 1)
FStmts(ss, i) == IF i > Len(ss) THEN <<>> ELSE FStmt(ss[i]) \o FStmts(ss, i + 1)
FProg(p) == FDecls(p.vars, 1) \o FStmts(p.stmts, 1)

\* ---- layout and positions ----------------------------------------------
Lay == <<" ", "\n", "  ", "\t", " /* é c */ ", "\r\n", " // x é\n", "\n\n ", " /* a\n b */", " \t ">>
Punct == {"[", "]", "{", "}", "(", ")", "=", ",", "*"}
Tight(prev, cur) == prev \in Punct \/ cur \in Punct
LayFor(seed, i, prev, cur) ==
  LET c == ((seed * 7) + (i * 13) + ((seed * i) % 5)) % (Len(Lay) + 3) IN
  IF i = 1 THEN (IF (c % 3) = 0 THEN "" ELSE IF c <= Len(Lay) /\ c >= 1 THEN Lay[c] ELSE "")
  ELSE IF c >= Len(Lay) THEN (IF Tight(prev, cur) THEN "" ELSE " ") ELSE Lay[c + 1]
RECURSIVE Adv(_,_,_)
Adv(pos, s, i) == IF i > Len(s) THEN pos
                  ELSE Adv(IF SubSeq(s, i, i) = "\n" THEN [ln |-> pos.ln + 1, ch |-> 0] ELSE [ln |-> pos.ln, ch |-> pos.ch + 1], s, i + 1)

VARIABLES ti,      \* index of the tree being printed
          toks, nodes,
          mode,    \* [seed] or [gap, lay]
          i, pos, text, spans
vars == <<ti, toks, nodes, mode, i, pos, text, spans>>

Init == /\ ti \in 1..Len(Trees)
        /\ LET r == PProg(Trees[ti]) IN
           /\ toks = r.toks /\ nodes = r.nodes
           /\ IF OneGap THEN mode \in {[seed |-> 0, gap |-> g, lay |-> y] : g \in 1..Len(r.toks), y \in 1..Len(Lay)}
              ELSE mode \in {[seed |-> s, gap |-> 0, lay |-> 0] : s \in Seeds}
        /\ i = 1 /\ pos = [ln |-> 0, ch |-> 0] /\ text = "" /\ spans = <<>>

Emit == /\ i <= Len(toks)
        /\ LET prev == IF i = 1 THEN "" ELSE toks[i-1]
               lay == IF OneGap THEN (IF i = mode.gap THEN Lay[mode.lay] ELSE IF i = 1 \/ Tight(prev, toks[i]) THEN "" ELSE " ")
                      ELSE LayFor(mode.seed, i, prev, toks[i])
               st  == Adv(pos, lay, 1)
               en  == [ln |-> st.ln, ch |-> st.ch + Len(toks[i])]
           IN /\ pos' = en
              /\ text' = text \o lay \o toks[i]
              /\ spans' = Append(spans, [s |-> st, e |-> en])
        /\ i' = i + 1
        /\ UNCHANGED <<ti, toks, nodes, mode>>
Next == Emit
Spec == Init /\ [][Next]_vars

\* ---- invariants of the machine itself (C15 at design level) -------------------
Before(p, q) == p.ln < q.ln \/ (p.ln = q.ln /\ p.ch <= q.ch)
Done == i > Len(toks)
NSpan(n) == [s |-> spans[nodes[n].f].s, e |-> spans[nodes[n].l].e]
\* tokens appear in order without overlap; hence children lie within parents and siblings are ordered
C15_TokensOrdered == \A k \in 1..Len(spans) : Before(spans[k].s, spans[k].e) /\ (k > 1 => Before(spans[k-1].e, spans[k].s))
C15_Nesting == Done => \A m, n \in 1..Len(nodes) :
                  (nodes[m].f <= nodes[n].f /\ nodes[n].l <= nodes[m].l) => (Before(NSpan(m).s, NSpan(n).s) /\ Before(NSpan(n).e, NSpan(m).e))

\* ---- output ---------------------------------------------------------------------
Out == [id |-> Trees[ti].id, text |-> text \o "\n", mode |-> mode,
        nodes |-> [n \in 1..Len(nodes) |->
                   <<nodes[n].kind, spans[nodes[n].f].s.ln, spans[nodes[n].f].s.ch, spans[nodes[n].l].e.ln, spans[nodes[n].l].e.ch, nodes[n].name>>],
        flat |-> FProg(Trees[ti]),
        valid |-> WithStatic /\ Valid(Trees[ti]),
        names |-> IF WithStatic THEN SetToSeq({<<x[1], spans[nodes[x[2]].f].s.ln, spans[nodes[x[2]].f].s.ch, spans[nodes[x[2]].l].e.ln, spans[nodes[x[2]].l].e.ch, nodes[x[2]].name>>
                                              : x \in NameDiagSet(nodes)})
                  ELSE <<>>]
EmitInv == Done => PrintT("GEN " \o ToJson(Out))
=============================================================================
