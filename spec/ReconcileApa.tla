---------------------------- MODULE ReconcileApa ----------------------------
(***************************************************************************)
(* C07 / C02 / C03 for UNBOUNDED amounts: typed twin of Reconcile.tla      *)
(* (same actions, one per loop iteration of reconciler.go) for Apalache.   *)
(* Names are small integers (KEPT = 0), amounts are symbolic integers      *)
(* without any upper bound, lists have at most N entries.  IndInv is an    *)
(* inductive invariant:                                                    *)
(*     Init => IndInv                  (--init=Init    --length=0)         *)
(*     IndInv /\ Next => IndInv'       (--init=IndInit --length=1)         *)
(* and implies, at pc = "done" with balanced inputs, that the postings add *)
(* up to exactly what the non-kept receivers were to get (C03), that each  *)
(* posting is strictly positive and never names the kept marker (C02), and *)
(* that what is kept is debited from nobody (C07): posted = sent - kept.   *)
(* TLC's 32-bit integers reach none of this above 2^31; the real           *)
(* Reconcile is bound to the same statement by the scaling lift of `vh     *)
(* rec` (DESIGN 5).                                                        *)
(***************************************************************************)
EXTENDS Integers, Sequences, Apalache

N == 3
KEPT == 0

VARIABLES
  \* @type: Seq(<<Int, Int>>);
  snd,
  \* @type: Seq(<<Int, Int>>);
  rcv,
  \* @type: Seq(<<Int, Int, Int>>);
  post,
  \* @type: Int;
  kept,
  \* @type: Str;
  pc,
  \* @type: Int;
  sent0,      \* history: total offered by the senders at the start
  \* @type: Int;
  kept0,      \* history: total the kept receivers asked to withhold at the start
  \* @type: Int;
  withheld    \* history: what the kept handling has withheld so far

\* @type: (Int, <<Int, Int>>) => Int;
AddAmt(acc, p) == acc + p[2]
\* @type: (Int, <<Int, Int>>) => Int;
AddKept(acc, p) == IF p[1] = KEPT THEN acc + p[2] ELSE acc
\* @type: (Int, <<Int, Int, Int>>) => Int;
AddPost(acc, p) == acc + p[3]
\* @type: Seq(<<Int, Int>>) => Int;
Sum2(s) == ApaFoldSeqLeft(AddAmt, 0, s)
\* @type: Seq(<<Int, Int>>) => Int;
SumKept(s) == ApaFoldSeqLeft(AddKept, 0, s)
\* @type: Seq(<<Int, Int, Int>>) => Int;
SumPost(s) == ApaFoldSeqLeft(AddPost, 0, s)

\* merge with the previous posting when source and destination coincide
\* @type: (Int, Int, Int) => Seq(<<Int, Int, Int>>);
AddPosting(s, d, m) ==
  IF Len(post) > 0 /\ post[Len(post)][1] = s /\ post[Len(post)][2] = d
  THEN [post EXCEPT ![Len(post)] = <<s, d, @[3] + m>>]
  ELSE Append(post, <<s, d, m>>)

\* @type: Seq(<<Int, Int>>) => Bool;
Positive2(s) == \A i \in DOMAIN s : s[i][2] > 0 /\ s[i][1] >= 0
Init ==
  /\ snd = Gen(N) /\ rcv = Gen(N)
  /\ Len(snd) <= N /\ Len(rcv) <= N
  /\ Positive2(snd) /\ Positive2(rcv)
  /\ \A i \in DOMAIN snd : snd[i][1] > 0                    \* a sender is never the kept marker
  /\ Sum2(snd) = Sum2(rcv)                                  \* what the interpreter hands over is balanced
  /\ post = <<>> /\ kept = 0 /\ pc = "loop"
  /\ sent0 = Sum2(snd) /\ kept0 = SumKept(rcv) /\ withheld = 0

Hist == UNCHANGED <<sent0, kept0>>
Done == /\ pc = "loop" /\ Len(rcv) = 0
        /\ pc' = "done" /\ UNCHANGED <<snd, rcv, post, kept, withheld>> /\ Hist
PopKept == /\ pc = "loop" /\ Len(rcv) > 0 /\ Head(rcv)[1] = KEPT
           /\ kept' = Head(rcv)[2] /\ rcv' = Tail(rcv) /\ pc' = "kept"
           /\ UNCHANGED <<snd, post, withheld>> /\ Hist
Withhold == /\ pc = "kept"
            /\ IF kept = 0 \/ Len(snd) = 0
               THEN pc' = "loop" /\ kept' = 0 /\ UNCHANGED <<snd, withheld>>
               ELSE LET s == Head(snd) IN
                    IF s[2] > kept
                    THEN snd' = <<  <<s[1], s[2] - kept>>  >> \o Tail(snd) /\ kept' = 0 /\ pc' = "loop" /\ withheld' = withheld + kept
                    ELSE snd' = Tail(snd) /\ kept' = kept - s[2] /\ pc' = "kept" /\ withheld' = withheld + s[2]
            /\ UNCHANGED <<rcv, post>> /\ Hist
NoSender == /\ pc = "loop" /\ Len(rcv) > 0 /\ Head(rcv)[1] # KEPT /\ Len(snd) = 0
            /\ pc' = "done" /\ UNCHANGED <<snd, rcv, post, kept, withheld>> /\ Hist
Match == /\ pc = "loop" /\ Len(rcv) > 0 /\ Head(rcv)[1] # KEPT /\ Len(snd) > 0
         /\ LET s == Head(snd)  r == Head(rcv) IN
            \/ s[2] = r[2] /\ snd' = Tail(snd) /\ rcv' = Tail(rcv) /\ post' = AddPosting(s[1], r[1], s[2])
            \/ s[2] < r[2] /\ snd' = Tail(snd) /\ rcv' = <<  <<r[1], r[2] - s[2]>>  >> \o Tail(rcv) /\ post' = AddPosting(s[1], r[1], s[2])
            \/ s[2] > r[2] /\ snd' = <<  <<s[1], s[2] - r[2]>>  >> \o Tail(snd) /\ rcv' = Tail(rcv) /\ post' = AddPosting(s[1], r[1], r[2])
         /\ UNCHANGED <<kept, pc, withheld>> /\ Hist
Next == Done \/ PopKept \/ Withhold \/ NoSender \/ Match
\* vacuity guard: the deviation "a sender exactly as large as what is kept stays in line with nothing left" (>= for >)
\* must be refuted (it leaves a zero sender, hence a zero posting): --next=NextBad
WithholdBad == /\ pc = "kept"
               /\ IF kept = 0 \/ Len(snd) = 0
                  THEN pc' = "loop" /\ kept' = 0 /\ UNCHANGED <<snd, withheld>>
                  ELSE LET s == Head(snd) IN
                       IF s[2] >= kept
                       THEN snd' = <<  <<s[1], s[2] - kept>>  >> \o Tail(snd) /\ kept' = 0 /\ pc' = "loop" /\ withheld' = withheld + kept
                       ELSE snd' = Tail(snd) /\ kept' = kept - s[2] /\ pc' = "kept" /\ withheld' = withheld + s[2]
               /\ UNCHANGED <<rcv, post>> /\ Hist
NextBad == Done \/ PopKept \/ WithholdBad \/ NoSender \/ Match

\* ------------------------------------------------------------------ the inductive invariant
PendingKept == SumKept(rcv) + kept
IndInv ==
  /\ pc \in {"loop", "kept", "done"}
  /\ Len(snd) <= N /\ Len(rcv) <= N
  /\ Positive2(snd) /\ Positive2(rcv) /\ kept >= 0 /\ withheld >= 0
  /\ \A i \in DOMAIN snd : snd[i][1] > 0
  /\ (pc # "kept" => kept = 0)
  \* C02: every posting is a real transfer
  /\ \A i \in DOMAIN post : post[i][3] > 0 /\ post[i][2] # KEPT /\ post[i][1] # KEPT
  \* balance: what is pending on both sides still matches (the kept register counts as a pending receiver)
  /\ Sum2(snd) = Sum2(rcv) + kept
  \* conservation: every unit offered was posted, withheld, or is still pending
  /\ SumPost(post) + withheld + Sum2(snd) = sent0
  \* C07: withheld funds are exactly the kept amounts already handled
  /\ withheld + PendingKept = kept0
  /\ kept0 >= 0 /\ sent0 >= 0

\* the statement the properties need, at the end (follows from IndInv; checked as an invariant of IndInv-states)
Final == pc = "done" =>
  /\ Len(snd) = 0 /\ Len(rcv) = 0                       \* balanced inputs are consumed completely
  /\ SumPost(post) = sent0 - kept0                      \* C03 exact amount, C07 kept is debited from nobody
  /\ withheld = kept0
IndInvFinal == IndInv /\ Final

\* vacuity guard: "done" is reachable from Init (this invariant a run with two postings and something withheld; must be refuted within 8 steps)
NeverDone == ~(pc = "done" /\ Len(post) >= 2 /\ withheld > 0)

\* arbitrary IndInv-state for the inductive step
IndInit ==
  /\ snd = Gen(N) /\ rcv = Gen(N) /\ post = Gen(4)
  /\ kept = Gen(1) /\ sent0 = Gen(1) /\ kept0 = Gen(1) /\ withheld = Gen(1)
  /\ pc \in {"loop", "kept", "done"}
  /\ IndInvFinal
=============================================================================
