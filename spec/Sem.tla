-------------------------------- MODULE Sem --------------------------------
(***************************************************************************)
(* The meaning of a Numscript program: a pure reference semantics.        *)
(*                                                                         *)
(* Abstract syntax (JSON-compatible records, kind field k):                *)
(*   expr   ::= var(name) | acct(v) | asset(v) | str(v) | num(v)           *)
(*            | portion(n,d) | mon(asset,amt) | infix(op,l,r)              *)
(*   source ::= acct(e) | ovd(e,b) | ovdu(e) | seq(s) | cap(c,s)           *)
(*            | allot(it : seq of [p, s])          p ::= expr | remaining  *)
(*   dest   ::= acct(e) | ord(cl : seq of [c, to], rem) | allot(it:[p,to]) *)
(*   kod    ::= kept | dest                                                *)
(*   stmt   ::= send(all,sent,src,dst) | save(all,sent,e)                  *)
(*            | call(name,args)                                            *)
(*   vdecl  ::= [type, name, origin, val]   origin ::= none | call(name,args)*)
(*                                                                         *)
(* Balances ("vis", the visible balance) are functions from <<account,     *)
(* asset>> pairs to integers; a missing pair reads as 0.                   *)
(***************************************************************************)
EXTENDS Integers, Sequences, FiniteSets, TLC

Min(a,b) == IF a < b THEN a ELSE b
Max(a,b) == IF a > b THEN a ELSE b
KEPT  == "<kept>"
WORLD == "world"

\* ---------- finite maps with default ----------
Get(f, k)    == IF k \in DOMAIN f THEN f[k] ELSE 0
Put(f, k, v) == [x \in DOMAIN f \cup {k} |-> IF x = k THEN v ELSE f[x]]
Upd(f, k, v) == Put(f, k, v)
EmptyMap     == <<>>
SameBal(f, g) == \A k \in DOMAIN f \cup DOMAIN g : Get(f, k) = Get(g, k)

\* ---------- values ----------
VNum(v)    == [t |-> "num", v |-> v]
VMon(a, v) == [t |-> "mon", a |-> a, v |-> v]
VAcct(v)   == [t |-> "acct", v |-> v]
VAsset(v)  == [t |-> "asset", v |-> v]
VStr(v)    == [t |-> "str", v |-> v]
VPor(n, d) == [t |-> "portion", n |-> n, d |-> d]
VErr(e)    == [t |-> "err", e |-> e]
IsErr(v)   == v.t = "err"

RECURSIVE Gcd(_,_)
Gcd(a,b) == IF b = 0 THEN a ELSE Gcd(b, a % b)
Lcm(a,b) == (a \div Gcd(a,b)) * b

\* the text a value is rendered to (account metadata, and String() of tx metadata)
Render(v) ==
  CASE v.t = "num" -> ToString(v.v)
    [] v.t = "mon" -> v.a \o " " \o ToString(v.v)
    [] v.t = "portion" -> LET g == Gcd(v.n, v.d) IN ToString(v.n \div g) \o "/" \o ToString(v.d \div g)
    [] OTHER -> v.v

\* error classes (Go type names of internal/interpreter/interpreter_error.go)
E_MissingFunds   == "MissingFundsErr"
E_Type           == "TypeError"
E_UnboundVar     == "UnboundVariableErr"
E_UnboundFn      == "UnboundFunctionErr"
E_BadArity       == "BadArityErr"
E_InvalidType    == "InvalidTypeErr"
E_MissingVar     == "MissingVariableErr"
E_NegBalance     == "NegativeBalanceError"
E_NegAmount      == "NegativeAmountErr"
E_AllotInSendAll == "InvalidAllotmentInSendAll"
E_UnbInSendAll   == "InvalidUnboundedInSendAll"
E_Currency       == "MismatchedCurrencyError"
E_AllotSum       == "InvalidAllotmentSum"
E_MetaNotFound   == "MetadataNotFound"
E_BadPortion     == "BadPortionParsingErr"
E_BadMonetary    == "InvalidMonetaryLiteral"
E_BadNumber      == "InvalidNumberLiteral"
E_Experimental   == "ExperimentalFeature"
E_BadAccount     == "InvalidAccountName"
E_QueryBalance   == "QueryBalanceError"
E_QueryMeta      == "QueryMetadataError"

\* ---------- expressions ----------
RECURSIVE Eval(_,_)
Eval(e, env) ==
  CASE e.k = "var"   -> IF e.name \in DOMAIN env THEN env[e.name] ELSE VErr(E_UnboundVar)
    [] e.k = "acct"  -> VAcct(e.v)
    [] e.k = "asset" -> VAsset(e.v)
    [] e.k = "str"   -> VStr(e.v)
    [] e.k = "num"   -> VNum(e.v)
    [] e.k = "portion" -> IF e.d = 0 THEN VErr(E_BadPortion) ELSE VPor(e.n, e.d)
    [] e.k = "mon"   -> LET a == Eval(e.asset, env) IN
                        IF IsErr(a) THEN a ELSE IF a.t # "asset" THEN VErr(E_Type) ELSE
                        LET n == Eval(e.amt, env) IN
                        IF IsErr(n) THEN n ELSE IF n.t # "num" THEN VErr(E_Type) ELSE VMon(a.v, n.v)
    [] e.k = "infix" -> LET l == Eval(e.l, env) IN
                        IF IsErr(l) THEN l ELSE IF l.t \notin {"num","mon"} THEN VErr(E_Type) ELSE
                        LET r == Eval(e.r, env) IN
                        IF IsErr(r) THEN r ELSE IF r.t # l.t THEN VErr(E_Type) ELSE
                        IF l.t = "mon" /\ l.a # r.a THEN VErr(E_Currency) ELSE
                        LET v == IF e.op = "+" THEN l.v + r.v ELSE l.v - r.v IN
                        IF l.t = "num" THEN VNum(v) ELSE VMon(l.a, v)
    [] OTHER -> VErr(E_Type)

Expect(v, t) == IF IsErr(v) THEN v ELSE IF v.t # t THEN VErr(E_Type) ELSE v
\* a monetary of the statement's asset, as a number
MonOf(v, asset) == LET m == Expect(v, "mon") IN
                   IF IsErr(m) THEN m ELSE IF m.a # asset THEN VErr(E_Currency) ELSE VNum(m.v)

\* ---------- draw results ----------
Ok(sent, snd, vis) == [err |-> "", sent |-> sent, snd |-> snd, vis |-> vis]
Err(e)             == [err |-> e, sent |-> 0, snd |-> <<>>, vis |-> <<>>]
One(a, g)          == IF g = 0 THEN <<>> ELSE << <<a, g>> >>

\* ---------- allotments ----------
\* items: portion values [t |-> "portion", n, d] or [t |-> "remaining"]
IsRem(p) == p.t = "remaining"
RECURSIVE DenLcm(_,_), NumSum(_,_,_), SumTo(_,_)
DenLcm(ps, i)    == IF i > Len(ps) THEN 1 ELSE Lcm(IF IsRem(ps[i]) THEN 1 ELSE ps[i].d, DenLcm(ps, i+1))
NumSum(ps, i, L) == IF i > Len(ps) THEN 0
                    ELSE (IF IsRem(ps[i]) THEN 0 ELSE ps[i].n * (L \div ps[i].d)) + NumSum(ps, i+1, L)
SumTo(f, k)      == IF k = 0 THEN 0 ELSE f[k] + SumTo(f, k-1)
\* floor division that is also right for negative numerators (TLC's \div floors already)
Allot(n, ps) ==
  IF \E i \in 1..Len(ps) : ~IsRem(ps[i]) /\ ps[i].d = 0 THEN [err |-> E_BadPortion, sh |-> <<>>]
  ELSE LET L      == DenLcm(ps, 1)
           tot    == NumSum(ps, 1, L)
           hasRem == \E i \in 1..Len(ps) : IsRem(ps[i])
           PNum(i) == IF IsRem(ps[i]) THEN L - tot ELSE ps[i].n * (L \div ps[i].d)
       IN IF (~hasRem /\ tot # L) \/ (hasRem /\ tot > L)      \* `remaining` cannot stand for a negative portion
          THEN [err |-> E_AllotSum, sh |-> <<>>]
          ELSE LET fl   == [i \in 1..Len(ps) |-> (n * PNum(i)) \div L]
                   left == n - SumTo(fl, Len(ps))
               IN [err |-> "", sh |-> [i \in 1..Len(ps) |-> fl[i] + (IF i <= left THEN 1 ELSE 0)]]
PortionOf(p, env) == IF p.k = "remaining" THEN [t |-> "remaining"] ELSE Expect(Eval(p, env), "portion")
Portions(it, env) == [i \in 1..Len(it) |-> PortionOf(it[i].p, env)]
FirstErr(vs) == IF \E i \in 1..Len(vs) : IsErr(vs[i])
                THEN vs[CHOOSE i \in 1..Len(vs) : IsErr(vs[i]) /\ \A j \in 1..(i-1) : ~IsErr(vs[j])].e ELSE ""

\* ---------- sources ----------
\* What an account can still give: its visible balance (already reduced by what this
\* statement pulled from it) plus the overdraft it is granted, never negative.
Avail(vis, a, as, ovd) == Max(0, Get(vis, <<a, as>>) + ovd)
Take(vis, a, as, g)    == Put(vis, <<a, as>>, Get(vis, <<a, as>>) - g)

Leaf(a, ovd, unb, vis, as, need) ==
  IF a = WORLD THEN Ok(need, One(a, need), vis)
  ELSE IF unb THEN Ok(need, One(a, need), Take(vis, a, as, need))
  ELSE LET g == Min(need, Avail(vis, a, as, ovd)) IN Ok(g, One(a, g), Take(vis, a, as, g))

RECURSIVE Draw(_,_,_,_,_), DrawSeq(_,_,_,_,_,_), DrawAllot(_,_,_,_,_,_)
Draw(s, env, vis, as, need) ==
  CASE s.k = "acct" -> LET a == Expect(Eval(s.e, env), "acct") IN
                       IF IsErr(a) THEN Err(a.e) ELSE Leaf(a.v, 0, FALSE, vis, as, need)
    [] s.k = "ovd"  -> LET b == MonOf(Eval(s.b, env), as)
                           a == Expect(Eval(s.e, env), "acct") IN
                       IF IsErr(b) THEN Err(b.e) ELSE IF IsErr(a) THEN Err(a.e) ELSE Leaf(a.v, b.v, FALSE, vis, as, need)
    [] s.k = "ovdu" -> LET a == Expect(Eval(s.e, env), "acct") IN
                       IF IsErr(a) THEN Err(a.e) ELSE Leaf(a.v, 0, TRUE, vis, as, need)
    [] s.k = "seq"  -> DrawSeq(s.s, 1, env, vis, as, need)
    [] s.k = "cap"  -> LET c == MonOf(Eval(s.c, env), as) IN
                       IF IsErr(c) THEN Err(c.e) ELSE Draw(s.s, env, vis, as, Max(0, Min(need, c.v)))
    [] s.k = "allot" -> LET ps == Portions(s.it, env)  fe == FirstErr(ps) IN
                        IF fe # "" THEN Err(fe) ELSE
                        LET al == Allot(need, ps) IN
                        IF al.err # "" THEN Err(al.err) ELSE DrawAllot(s.it, al.sh, 1, env, vis, as)

DrawSeq(ss, i, env, vis, as, need) ==
  IF i > Len(ss) THEN Ok(0, <<>>, vis)
  ELSE LET r == Draw(ss[i], env, vis, as, need) IN
       IF r.err # "" THEN r
       ELSE LET rest == DrawSeq(ss, i+1, env, r.vis, as, need - r.sent) IN
            IF rest.err # "" THEN rest ELSE Ok(r.sent + rest.sent, r.snd \o rest.snd, rest.vis)

DrawAllot(it, sh, i, env, vis, as) ==
  IF i > Len(it) THEN Ok(0, <<>>, vis)
  ELSE LET r == Draw(it[i].s, env, vis, as, sh[i]) IN
       IF r.err # "" THEN r
       ELSE IF r.sent # sh[i] THEN Err(E_MissingFunds)
       ELSE LET rest == DrawAllot(it, sh, i+1, env, r.vis, as) IN
            IF rest.err # "" THEN rest ELSE Ok(r.sent + rest.sent, r.snd \o rest.snd, rest.vis)

RECURSIVE DrawAll(_,_,_,_), DrawAllSeq(_,_,_,_,_)
LeafAll(a, ovd, unb, vis, as) ==
  IF a = WORLD \/ unb THEN Err(E_UnbInSendAll)
  ELSE LET g == Avail(vis, a, as, ovd) IN Ok(g, One(a, g), Take(vis, a, as, g))
DrawAll(s, env, vis, as) ==
  CASE s.k = "acct" -> LET a == Expect(Eval(s.e, env), "acct") IN
                       IF IsErr(a) THEN Err(a.e) ELSE LeafAll(a.v, 0, FALSE, vis, as)
    [] s.k = "ovd"  -> LET b == MonOf(Eval(s.b, env), as)
                           a == Expect(Eval(s.e, env), "acct") IN
                       IF IsErr(b) THEN Err(b.e) ELSE IF IsErr(a) THEN Err(a.e) ELSE LeafAll(a.v, b.v, FALSE, vis, as)
    [] s.k = "ovdu" -> LET a == Expect(Eval(s.e, env), "acct") IN
                       IF IsErr(a) THEN Err(a.e) ELSE LeafAll(a.v, 0, TRUE, vis, as)
    [] s.k = "seq"  -> DrawAllSeq(s.s, 1, env, vis, as)
    [] s.k = "cap"  -> LET c == MonOf(Eval(s.c, env), as) IN
                       IF IsErr(c) THEN Err(c.e) ELSE Draw(s.s, env, vis, as, Max(0, c.v))
    [] s.k = "allot" -> Err(E_AllotInSendAll)
DrawAllSeq(ss, i, env, vis, as) ==
  IF i > Len(ss) THEN Ok(0, <<>>, vis)
  ELSE LET r == DrawAll(ss[i], env, vis, as) IN
       IF r.err # "" THEN r
       ELSE LET rest == DrawAllSeq(ss, i+1, env, r.vis, as) IN
            IF rest.err # "" THEN rest ELSE Ok(r.sent + rest.sent, r.snd \o rest.snd, rest.vis)

\* ---------- destinations ----------
ROk(rcv) == [err |-> "", rcv |-> rcv]
RErr(e)  == [err |-> e, rcv |-> <<>>]
RECURSIVE Dist(_,_,_,_), DistKod(_,_,_,_), DistOrd(_,_,_,_,_,_), DistAllot(_,_,_,_,_)
DistKod(k, env, as, amt) == IF k.k = "kept" THEN ROk(One(KEPT, amt)) ELSE Dist(k, env, as, amt)
Dist(d, env, as, amt) ==
  CASE d.k = "acct" -> LET a == Expect(Eval(d.e, env), "acct") IN IF IsErr(a) THEN RErr(a.e) ELSE ROk(One(a.v, amt))
    [] d.k = "ord"  -> DistOrd(d.cl, d.rem, 1, env, as, amt)
    [] d.k = "allot" -> LET ps == Portions(d.it, env)  fe == FirstErr(ps) IN
                        IF fe # "" THEN RErr(fe) ELSE
                        LET al == Allot(amt, ps) IN
                        IF al.err # "" THEN RErr(al.err) ELSE DistAllot(d.it, al.sh, 1, env, as)
DistOrd(cl, rem, i, env, as, left) ==
  IF i > Len(cl) THEN (IF left = 0 THEN ROk(<<>>) ELSE DistKod(rem, env, as, left))
  ELSE LET c == MonOf(Eval(cl[i].c, env), as) IN
       IF IsErr(c) THEN RErr(c.e)
       ELSE IF left = 0 THEN ROk(<<>>)     \* nothing left: later clauses are not looked at
       ELSE LET g == Min(Max(0, c.v), left)
                r == IF g = 0 THEN ROk(<<>>) ELSE DistKod(cl[i].to, env, as, g) IN
            IF r.err # "" THEN r
            ELSE LET rest == DistOrd(cl, rem, i+1, env, as, left - g) IN
                 IF rest.err # "" THEN rest ELSE ROk(r.rcv \o rest.rcv)
DistAllot(it, sh, i, env, as) ==
  IF i > Len(it) THEN ROk(<<>>)
  ELSE LET r == DistKod(it[i].to, env, as, sh[i]) IN
       IF r.err # "" THEN r
       ELSE LET rest == DistAllot(it, sh, i+1, env, as) IN
            IF rest.err # "" THEN rest ELSE ROk(r.rcv \o rest.rcv)

\* ---------- pairing (declarative first-come-first-served) ----------
RECURSIVE Pair(_,_,_)
Pair(snd, rcv, acc) ==
  IF rcv = <<>> \/ snd = <<>> THEN acc
  ELSE LET s == Head(snd)  r == Head(rcv)  m == Min(s[2], r[2])
           snd2 == IF s[2] = m THEN Tail(snd) ELSE << <<s[1], s[2]-m>> >> \o Tail(snd)
           rcv2 == IF r[2] = m THEN Tail(rcv) ELSE << <<r[1], r[2]-m>> >> \o Tail(rcv)
       IN Pair(snd2, rcv2, IF r[1] = KEPT THEN acc ELSE Append(acc, <<s[1], r[1], m>>))

\* ---------- projections of posting lists <<src, dst, amount, asset>> ----------
RECURSIVE SumAmt(_), SumWhere(_,_,_)
SumAmt(ps) == IF ps = <<>> THEN 0 ELSE Head(ps)[3] + SumAmt(Tail(ps))
SumWhere(ps, i, v) == IF ps = <<>> THEN 0 ELSE (IF Head(ps)[i] = v THEN Head(ps)[3] ELSE 0) + SumWhere(Tail(ps), i, v)
Names(ps, i) == {ps[j][i] : j \in 1..Len(ps)}
Debits(ps)  == [a \in Names(ps, 1) |-> SumWhere(ps, 1, a)]
Credits(ps) == [a \in Names(ps, 2) |-> SumWhere(ps, 2, a)]
RECURSIVE FlowSum(_,_,_)
FlowSum(ps, s, d) == IF ps = <<>> THEN 0
   ELSE (IF Head(ps)[1] = s /\ Head(ps)[2] = d THEN Head(ps)[3] ELSE 0) + FlowSum(Tail(ps), s, d)
FlowPairs(ps) == {<<ps[j][1], ps[j][2]>> : j \in 1..Len(ps)}
Flow(ps) == [p \in FlowPairs(ps) |-> FlowSum(ps, p[1], p[2])]
\* all of these compare with default 0 so that zero entries do not matter
SameMap(f, g) == \A k \in DOMAIN f \cup DOMAIN g : Get(f, k) = Get(g, k)
RECURSIVE KeptOf(_)
KeptOf(rcv) == IF rcv = <<>> THEN 0 ELSE (IF Head(rcv)[1] = KEPT THEN Head(rcv)[2] ELSE 0) + KeptOf(Tail(rcv))
RECURSIVE SumPairs(_)
SumPairs(xs) == IF xs = <<>> THEN 0 ELSE Head(xs)[2] + SumPairs(Tail(xs))

\* ---------- statements ----------
RECURSIVE ApplyPost(_,_)
ApplyPost(vis, ps) == IF ps = <<>> THEN vis
   ELSE LET p == Head(ps)
            v1 == Put(vis, <<p[1], p[4]>>, Get(vis, <<p[1], p[4]>>) - p[3])
        IN ApplyPost(Put(v1, <<p[2], p[4]>>, Get(v1, <<p[2], p[4]>>) + p[3]), Tail(ps))
WithAsset(ps, as) == [i \in 1..Len(ps) |-> <<ps[i][1], ps[i][2], ps[i][3], as>>]

\* state: [err, vis, post (seq of <<s,d,amt,asset>>), tx, am]
\* details of the last send (for the per-property projections): [asset, need, snd, rcv]
NoSend == [asset |-> "", need |-> 0, snd |-> <<>>, rcv |-> <<>>, all |-> FALSE]
SendParts(st, env, vis) ==
  IF st.all THEN
    LET a == Expect(Eval(st.sent, env), "asset") IN
    IF IsErr(a) THEN [err |-> a.e, d |-> NoSend] ELSE
    LET dr == DrawAll(st.src, env, vis, a.v) IN
    IF dr.err # "" THEN [err |-> dr.err, d |-> [NoSend EXCEPT !.asset = a.v, !.all = TRUE]] ELSE
    LET ds == Dist(st.dst, env, a.v, dr.sent) IN
    IF ds.err # "" THEN [err |-> ds.err, d |-> [NoSend EXCEPT !.asset = a.v, !.all = TRUE]] ELSE
    [err |-> "", d |-> [asset |-> a.v, need |-> dr.sent, snd |-> dr.snd, rcv |-> ds.rcv, all |-> TRUE]]
  ELSE
    LET m == Expect(Eval(st.sent, env), "mon") IN
    IF IsErr(m) THEN [err |-> m.e, d |-> NoSend] ELSE
    IF m.v < 0 THEN [err |-> E_NegAmount, d |-> [NoSend EXCEPT !.asset = m.a, !.need = m.v]] ELSE
    LET dr == Draw(st.src, env, vis, m.a, m.v) IN
    IF dr.err # "" THEN [err |-> dr.err, d |-> [NoSend EXCEPT !.asset = m.a, !.need = m.v]] ELSE
    IF dr.sent # m.v THEN [err |-> E_MissingFunds, d |-> [NoSend EXCEPT !.asset = m.a, !.need = m.v]] ELSE
    LET ds == Dist(st.dst, env, m.a, m.v) IN
    IF ds.err # "" THEN [err |-> ds.err, d |-> [NoSend EXCEPT !.asset = m.a, !.need = m.v]] ELSE
    [err |-> "", d |-> [asset |-> m.a, need |-> m.v, snd |-> dr.snd, rcv |-> ds.rcv, all |-> FALSE]]

SendStmt(st, env, S) ==
  LET sp == SendParts(st, env, S.vis) IN
  IF sp.err # "" THEN [S EXCEPT !.err = sp.err]
  ELSE LET ps == WithAsset(Pair(sp.d.snd, sp.d.rcv, <<>>), sp.d.asset) IN
       [S EXCEPT !.vis = ApplyPost(S.vis, ps), !.post = @ \o ps]

\* the reservation made by save: the visible balance after it
SaveVis(v, n)  == IF v <= 0 THEN v ELSE Max(0, v - n)
SaveAllVis(v)  == Min(v, 0)
SaveStmt(st, env, S) ==
  IF st.all THEN
    LET a == Expect(Eval(st.sent, env), "asset") IN
    IF IsErr(a) THEN [S EXCEPT !.err = a.e] ELSE
    LET acc == Expect(Eval(st.e, env), "acct") IN
    IF IsErr(acc) THEN [S EXCEPT !.err = acc.e] ELSE
    [S EXCEPT !.vis = Put(@, <<acc.v, a.v>>, SaveAllVis(Get(@, <<acc.v, a.v>>)))]
  ELSE
    LET m == Expect(Eval(st.sent, env), "mon") IN
    IF IsErr(m) THEN [S EXCEPT !.err = m.e] ELSE
    LET acc == Expect(Eval(st.e, env), "acct") IN
    IF IsErr(acc) THEN [S EXCEPT !.err = acc.e] ELSE
    IF m.v < 0 THEN [S EXCEPT !.err = E_NegAmount] ELSE
    [S EXCEPT !.vis = Put(@, <<acc.v, m.a>>, SaveVis(Get(@, <<acc.v, m.a>>), m.v))]

EvalAll(args, env) == [i \in 1..Len(args) |-> Eval(args[i], env)]
CallStmt(st, env, S) ==
  LET vs == EvalAll(st.args, env)  fe == FirstErr(vs) IN
  IF fe # "" THEN [S EXCEPT !.err = fe] ELSE
  CASE st.name = "set_tx_meta" ->
         IF Len(vs) # 2 THEN [S EXCEPT !.err = E_BadArity]
         ELSE IF vs[1].t # "str" THEN [S EXCEPT !.err = E_Type]
         ELSE [S EXCEPT !.tx = Upd(@, vs[1].v, Render(vs[2]))]
    [] st.name = "set_account_meta" ->
         IF Len(vs) # 3 THEN [S EXCEPT !.err = E_BadArity]
         ELSE IF vs[1].t # "acct" \/ vs[2].t # "str" THEN [S EXCEPT !.err = E_Type]
         ELSE [S EXCEPT !.am = Upd(@, vs[1].v, Upd(IF vs[1].v \in DOMAIN @ THEN @[vs[1].v] ELSE <<>>, vs[2].v, Render(vs[3])))]
    [] OTHER -> [S EXCEPT !.err = E_UnboundFn]

Step(st, env, S) ==
  CASE st.k = "send" -> SendStmt(st, env, S)
    [] st.k = "save" -> SaveStmt(st, env, S)
    [] st.k = "call" -> CallStmt(st, env, S)
RECURSIVE RunStmts(_,_,_,_)
RunStmts(ss, i, env, S) == IF i > Len(ss) \/ S.err # "" THEN S ELSE RunStmts(ss, i+1, env, Step(ss[i], env, S))

\* ---------- variables ----------
\* case record c: [vars, stmts, bal (function <<acct,asset>> -> Int as nested record), meta, flags]
\* @world has no stored balance a script can see: it is never requested, so an entry the store content happens to
\* hold for it does not exist for the script (balance(@world, X) reads 0; only the script's own postings move it)
Bal0(c, a, as) == IF a # WORLD /\ a \in DOMAIN c.bal /\ as \in DOMAIN c.bal[a] THEN c.bal[a][as] ELSE 0
InitVis(c) == LET pairs == UNION {{<<a, as>> : as \in DOMAIN c.bal[a]} : a \in DOMAIN c.bal \ {WORLD}}
              IN [p \in pairs |-> c.bal[p[1]][p[2]]]
TypeTag(ty) == CASE ty = "monetary" -> "mon" [] ty = "account" -> "acct" [] ty = "asset" -> "asset"
                 [] ty = "number" -> "num" [] ty = "portion" -> "portion" [] ty = "string" -> "str" [] OTHER -> "?"
\* d.val is the typed value of the text given for the variable (or found in the metadata),
\* or [t |-> "err", e |-> class] when the harness rendered a deliberately unreadable text,
\* or [t |-> "missing"] when no text is supplied at all.
ReadVal(d) ==
  IF TypeTag(d.type) = "?" THEN VErr(E_InvalidType)
  ELSE IF d.val.t = "err" THEN d.val
  ELSE IF d.val.t # TypeTag(d.type) THEN VErr(E_Type)   \* never generated; defensive
  ELSE d.val

RECURSIVE Decl(_,_,_,_,_)
\* returns [err, env, vis]; vis only matters for balance()/overdraft() origins, read from the store content
Decl(c, vs, i, env, flagOvd) ==
  IF i > Len(vs) THEN [err |-> "", env |-> env]
  ELSE LET d == vs[i] IN
    IF d.origin.k = "none" THEN
         IF d.val.t = "missing" THEN [err |-> E_MissingVar, env |-> env]
         ELSE LET v == ReadVal(d) IN
              IF IsErr(v) THEN [err |-> v.e, env |-> env] ELSE Decl(c, vs, i+1, Upd(env, d.name, v), flagOvd)
    ELSE LET args == EvalAll(d.origin.args, env)  fe == FirstErr(args)  nm == d.origin.name IN
      IF fe # "" THEN [err |-> fe, env |-> env]
      ELSE IF nm = "meta" THEN
           IF Len(args) # 2 THEN [err |-> E_BadArity, env |-> env]
           ELSE IF args[1].t # "acct" \/ args[2].t # "str" THEN [err |-> E_Type, env |-> env]
           ELSE IF d.val.t = "missing" THEN [err |-> E_MetaNotFound, env |-> env]
           ELSE LET v == ReadVal(d) IN
                IF IsErr(v) THEN [err |-> v.e, env |-> env] ELSE Decl(c, vs, i+1, Upd(env, d.name, v), flagOvd)
      ELSE IF nm \in {"balance", "overdraft"} THEN
           IF nm = "overdraft" /\ ~flagOvd THEN [err |-> E_Experimental, env |-> env]
           ELSE IF Len(args) # 2 THEN [err |-> E_BadArity, env |-> env]
           ELSE IF args[1].t # "acct" \/ args[2].t # "asset" THEN [err |-> E_Type, env |-> env]
           ELSE LET b == Bal0(c, args[1].v, args[2].v) IN
                IF nm = "balance" THEN
                   IF b < 0 THEN [err |-> E_NegBalance, env |-> env]
                   ELSE Decl(c, vs, i+1, Upd(env, d.name, VMon(args[2].v, b)), flagOvd)
                ELSE Decl(c, vs, i+1, Upd(env, d.name, VMon(args[2].v, IF b > 0 THEN 0 ELSE 0 - b)), flagOvd)
      ELSE [err |-> E_UnboundFn, env |-> env]

EmptyState(c) == [err |-> "", vis |-> InitVis(c), post |-> <<>>, tx |-> <<>>, am |-> <<>>]
FlagOvd(c) == "flagovd" \in DOMAIN c /\ c.flagovd
Run(c) ==
  LET de == Decl(c, c.vars, 1, <<>>, FlagOvd(c)) IN
  IF de.err # "" THEN [EmptyState(c) EXCEPT !.err = de.err]
  ELSE RunStmts(c.stmts, 1, de.env, EmptyState(c))

=============================================================================
