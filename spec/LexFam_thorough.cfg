SPECIFICATION Spec
CONSTANTS N = 4
INVARIANTS Emit
CHECK_DEADLOCK FALSE
