------------------------------ MODULE WireTrace ------------------------------
(***************************************************************************)
(* C19 below the handlers: the real binary `numscript lsp` fed one history *)
(* (didOpen, didChange, hover) cut at the positions chosen by Wire.tla.    *)
(* Each line: the cut offsets, the frames printed (count, well-framed,     *)
(* equal to those of the uncut run), the exit status, and the hover reply  *)
(* next to the one the handlers give in process for the latest text.       *)
(***************************************************************************)
EXTENDS Integers, Sequences, FiniteSets, TLC, Json, IOUtils
Trace == ndJsonDeserialize(IOEnv.TRACE)
N == Len(Trace)
VARIABLE l
Init == l \in 1..N
Next == UNCHANGED l
Spec == Init /\ [][Next]_l
T == Trace[l]
Report(prop, what) ==
  /\ TLCSet(2, TLCGet(2) + 1)
  /\ PrintT("VIOL " \o ToJson([prop |-> prop, id |-> T.id, line |-> l, what |-> what]))
Check(prop, what, cond) == cond \/ Report(prop, what)
C19_Wire ==
  /\ Check("C19", "the uncut run of the server binary did not answer the hover request as the handlers do for the latest text",
           T.baseframed /\ ~T.basetimeout /\ T.baseexit = 0 /\ T.basehover = T.exphover)
  /\ Check("C19", "the server died or hung when the request stream arrived in several pieces", ~T.timeout /\ T.exit = 0)
  /\ Check("C19", "the frames printed depend on how the request stream was cut into writes (a message was decoded from part of its bytes, or lost)",
           (~T.timeout /\ T.exit = 0) => (T.framed /\ T.sameasbase))
  /\ Check("C19", "the hover reply does not come from the latest text when the request stream arrives in several pieces",
           (~T.timeout /\ T.exit = 0) => T.hover = T.exphover)
Post == TLCGet(2) = 0
ASSUME TLCSet(2, 0)
=============================================================================
