SPECIFICATION Spec
CONSTANTS Depth = 2
 Seps = {5}
 Rich = FALSE
INVARIANTS EmitInv
CHECK_DEADLOCK FALSE
