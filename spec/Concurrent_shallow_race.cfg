SPECIFICATION Spec
CONSTANTS Merge = "shallow"
 Procs = {1, 2}
 NStmts = 2
 Amt = 2
 A0 = 20
 Emit = FALSE
INVARIANTS NoRace
CHECK_DEADLOCK FALSE
