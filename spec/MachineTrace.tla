---------------------------- MODULE MachineTrace ----------------------------
(***************************************************************************)
(* Statement-level trace validation of real interpreter executions.       *)
(*                                                                         *)
(* The trace file (ndjson, env var TRACE) holds many recorded executions:  *)
(*   case     the script tree as the real parser saw it, variables with    *)
(*            the typed value behind their text, store content, flags      *)
(*   stmt     one line per executed statement (hook in RunProgram): kind,  *)
(*            postings of that statement, error class                      *)
(*   outcome  what Run returned: status, postings, metadata                *)
(* Every execution is its own initial state.  The state FOLLOWS THE        *)
(* OBSERVATION (logged postings are applied to the visible balances), and  *)
(* chk holds, next to it, what the specification computes from the same    *)
(* pre-state; the property invariants compare the projections each         *)
(* property talks about.  Consumption never blocks on a disagreement: a    *)
(* disagreement is always an invariant, never a stuck trace.               *)
(***************************************************************************)
EXTENDS SemErr, Json, IOUtils, SequencesExt

Trace == ndJsonDeserialize(IOEnv.TRACE)
N == Len(Trace)
CaseLines == {i \in 1..N : Trace[i].e = "case"}

VARIABLES l,      \* next trace line to consume
          ci,     \* line of the case record of this execution
          env,    \* [err, env]: the declarations as the specification reads them
          S,      \* [err, vis, post, tx, am]; vis follows the observation
          si,     \* next statement
          chk,    \* what the last step compared
          done
vars == <<l, ci, env, S, si, chk, done>>

NoChk == [kind |-> "none", st |-> [k |-> "none"], pre |-> <<>>, sp |-> [err |-> "", d |-> NoSend],
          nxerr |-> "", obs |-> <<>>, obsst |-> "ok", huge |-> FALSE]

C == Trace[ci]

Init == \E i \in CaseLines :
          /\ ci = i /\ l = i + 1
          /\ env = Decl(Trace[i], Trace[i].vars, 1, <<>>, FlagOvd(Trace[i]))
          /\ S = EmptyState(Trace[i]) /\ si = 1 /\ chk = NoChk /\ done = FALSE

IsEvent(e) == ~done /\ l <= N /\ Trace[l].e = e

IsHuge(ps) == \E i \in 1..Len(ps) : ps[i][3] >= 100000000 \/ ps[i][3] <= -100000000

\* one executed statement, as logged by the hook
TraceStmt ==
  /\ IsEvent("stmt")
  /\ LET known == si <= Len(C.stmts) /\ env.err = ""
         st  == IF known THEN C.stmts[si] ELSE [k |-> "none"]
         obs == Trace[l].post
         huge == IsHuge(obs) \/ chk.huge
         pre == [S EXCEPT !.post = <<>>]
         sp  == IF known /\ st.k = "send" /\ ~huge THEN SendParts(st, env.env, S.vis) ELSE [err |-> "", d |-> NoSend]
         nx  == IF known /\ st.k # "send" /\ ~huge THEN Step(st, env.env, pre) ELSE pre
     IN /\ chk' = [kind |-> st.k, st |-> st, pre |-> S.vis, sp |-> sp, nxerr |-> nx.err,
                   obs |-> obs, obsst |-> Trace[l].st, huge |-> huge]
        /\ S' = IF huge THEN S
                ELSE IF st.k = "send" THEN [S EXCEPT !.vis = ApplyPost(S.vis, obs), !.post = @ \o obs]
                ELSE IF nx.err = "" THEN [nx EXCEPT !.post = S.post] ELSE S
  /\ si' = si + 1 /\ l' = l + 1 /\ UNCHANGED <<ci, env, done>>

TraceOutcome ==
  /\ IsEvent("outcome")
  /\ chk' = [NoChk EXCEPT !.kind = "outcome", !.obsst = Trace[l].st, !.obs = Trace[l].post, !.huge = chk.huge \/ IsHuge(Trace[l].post)]
  /\ done' = TRUE /\ l' = l + 1 /\ TLCSet(1, TLCGet(1) + 1)
  /\ UNCHANGED <<ci, env, S, si>>

Next == TraceStmt \/ TraceOutcome
Spec == Init /\ [][Next]_vars

\* -------------------------------------------------------------------------
\* Reporting: a failed check prints one machine-readable line and is counted;
\* TLC keeps going so that every disagreement of the batch is reported, and the
\* POSTCONDITION fails the run if any was counted.
Report(prop, what) ==
  /\ TLCSet(2, TLCGet(2) + 1)
  /\ PrintT("VIOL " \o ToJson([prop |-> prop, id |-> C.id, line |-> l - 1, what |-> what]))
Check(prop, what, cond) == cond \/ Report(prop, what)

O == Trace[l-1]          \* the line consumed by the last step (valid when chk.kind # "none")
\* an observed error class the specification does not know (a renamed or new error type) is "some failure":
\* it never counts as a wrong class
Unknown == chk.obsst # "ok" /\ chk.obsst # "panic" /\ chk.obsst \notin KnownClasses
ObsIs(cls) == chk.obsst = cls \/ Unknown
IsSend == chk.kind = "send"
Fixed  == IsSend /\ ~chk.st.all
SpecOk == chk.sp.err = ""
ObsOk  == chk.obsst = "ok"
SendOk == IsSend /\ SpecOk /\ ObsOk /\ ~chk.huge
ExpPost == Pair(chk.sp.d.snd, chk.sp.d.rcv, <<>>)      \* <<src, dst, amt>>
RECURSIVE SndDebits(_,_)
SndDebits(snd, a) == IF snd = <<>> THEN 0 ELSE (IF Head(snd)[1] = a THEN Head(snd)[2] ELSE 0) + SndDebits(Tail(snd), a)
PairNames(xs) == {xs[j][1] : j \in 1..Len(xs)}

\* ---- C02: every posting is a real transfer
StmtAsset == IF IsSend /\ chk.st.k = "send"
             THEN LET v == Eval(chk.st.sent, env.env) IN
                  IF IsErr(v) THEN "" ELSE IF v.t = "asset" THEN v.v ELSE IF v.t = "mon" THEN v.a ELSE ""
             ELSE ""
RealPosting(p, as) == /\ p[3] > 0 /\ p[1] # "" /\ p[2] # "" /\ p[1] # KEPT /\ p[2] # KEPT
                      /\ (as = "" \/ p[4] = as)
C02_RealTransfer ==
  /\ Check("C02", "posting of a statement", chk.kind \in {"send","save","call"} => \A i \in 1..Len(chk.obs) : RealPosting(chk.obs[i], StmtAsset))
  /\ Check("C02", "non-send statement produced postings", chk.kind \in {"save","call"} => chk.obs = <<>>)
  /\ Check("C02", "posting of the result", (chk.kind = "outcome" /\ ObsOk) => \A i \in 1..Len(chk.obs) : RealPosting(chk.obs[i], ""))
  /\ Check("C02", "result is the concatenation of the statements' postings",
           (chk.kind = "outcome" /\ ObsOk /\ ~chk.huge) => chk.obs = S.post)

\* ---- C01: replaying the postings never overdraws beyond what the script grants
RECURSIVE SrcLeaves(_)
SrcLeaves(s) ==
  CASE s.k \in {"acct","ovd","ovdu"} -> << s >>
    [] s.k = "seq" -> IF s.s = <<>> THEN <<>> ELSE SrcLeaves(Head(s.s)) \o SrcLeaves([s EXCEPT !.s = Tail(s.s)])
    [] s.k = "cap" -> SrcLeaves(s.s)
    [] s.k = "allot" -> IF s.it = <<>> THEN <<>> ELSE SrcLeaves(Head(s.it).s) \o SrcLeaves([s EXCEPT !.it = Tail(s.it)])
RECURSIVE AllLeaves(_,_)
\* <<leaf, sent expr>> of every send of the script
AllLeaves(ss, i) == IF i > Len(ss) THEN <<>>
   ELSE (IF ss[i].k = "send" THEN LET ls == SrcLeaves(ss[i].src) IN [j \in 1..Len(ls) |-> <<ls[j], ss[i].sent>>] ELSE <<>>) \o AllLeaves(ss, i+1)
LeafAcct(lf) == LET a == Eval(lf.e, env.env) IN IF IsErr(a) \/ a.t # "acct" THEN "" ELSE a.v
Rng(f) == {f[x] : x \in DOMAIN f}
Exempt == {WORLD} \cup {LeafAcct(x[1]) : x \in {y \in Rng(AllLeaves(C.stmts, 1)) : y[1].k = "ovdu"}}
\* the largest bounded overdraft granted to account a for asset as (0 when none)
Bounds(a) == { Eval(x[1].b, env.env) : x \in {y \in Rng(AllLeaves(C.stmts, 1)) : y[1].k = "ovd" /\ LeafAcct(y[1]) = a} }
Grants(a, as) == {0} \cup { b.v : b \in {bb \in Bounds(a) : bb.t = "mon" /\ bb.a = as} }
MaxOf(s) == CHOOSE x \in s : \A y \in s : y <= x
Floor(a, as) == Min(Bal0(C, a, as), 0 - MaxOf(Grants(a, as)))
RECURSIVE ReplayOk(_,_)
ReplayOk(vis, ps) ==
  IF ps = <<>> THEN TRUE
  ELSE LET p == Head(ps)  v2 == ApplyPost(vis, << p >>) IN
       /\ (p[1] \in Exempt \/ Get(v2, <<p[1], p[4]>>) >= Floor(p[1], p[4]))
       /\ (p[2] \in Exempt \/ Get(v2, <<p[2], p[4]>>) >= Floor(p[2], p[4]))      \* (a negative amount would drain the receiver)
       /\ ReplayOk(v2, Tail(ps))
C01_NoOverdraft ==
  Check("C01", "replay of the postings drives an account below its floor",
        (chk.kind = "outcome" /\ ObsOk /\ ~chk.huge /\ env.err = "") => ReplayOk(InitVis(C), chk.obs))

\* ---- C03: exact amount or total failure
Need == chk.sp.d.need
C03_ExactOrFail ==
  /\ Check("C03", "failed although the sources can supply the amount",
           (Fixed /\ SpecOk /\ ~chk.huge) => ObsOk)
  /\ Check("C03", "succeeded although the sources cannot supply the amount",
           (Fixed /\ chk.sp.err = E_MissingFunds /\ ~chk.huge) => ObsIs(E_MissingFunds))
  /\ Check("C03", "insufficient-funds error although the funds are there",
           (Fixed /\ chk.obsst = E_MissingFunds /\ ~chk.huge) => chk.sp.err = E_MissingFunds)
  /\ Check("C03", "postings do not add up to the amount minus kept",
           (Fixed /\ SendOk) => SumAmt(chk.obs) = Need - KeptOf(chk.sp.d.rcv))
  /\ Check("C03", "a failed execution returned postings or metadata",
           (chk.kind = "outcome" /\ ~ObsOk) => (chk.obs = <<>> /\ ~O.leak))
  /\ Check("C03", "statements after a failed one were executed",
           (chk.kind \in {"send","save","call"} /\ ~ObsOk) => (l <= N /\ Trace[l].e = "outcome" /\ Trace[l].st = chk.obsst))
  /\ Check("C03", "huge amount", ~chk.huge)

\* ---- C04: sources drawn in declared order (corpus: one plain destination)
C04_Debits ==
  /\ Check("C04", "debit totals differ from the greedy draw",
           SendOk => \A a \in Names(chk.obs, 1) \cup PairNames(chk.sp.d.snd) : SumWhere(chk.obs, 1, a) = SndDebits(chk.sp.d.snd, a))
  /\ Check("C04", "send-all source shape accepted/rejected wrongly",
           (IsSend /\ chk.st.all /\ ~chk.huge) =>
              /\ (chk.sp.err \in {E_UnbInSendAll, E_AllotInSendAll} => ObsIs(chk.sp.err))
              /\ (chk.obsst \in {E_UnbInSendAll, E_AllotInSendAll} => chk.sp.err = chk.obsst))
  /\ Check("C04", "spurious failure / success", (IsSend /\ ~chk.huge /\ chk.sp.err \in {"", E_MissingFunds}) => (ObsOk <=> SpecOk))
  /\ Check("C04", "huge amount", ~chk.huge)

\* ---- C05: destinations filled in order (corpus: source is @world / one account)
RcvCredits(rcv, a) == SndDebits(rcv, a)
C05_Credits ==
  /\ Check("C05", "credit totals differ from the declared distribution",
           SendOk => \A a \in (Names(chk.obs, 2) \cup PairNames(chk.sp.d.rcv)) \ {KEPT} : SumWhere(chk.obs, 2, a) = RcvCredits(chk.sp.d.rcv, a))
  /\ Check("C05", "credited plus kept differs from the amount sent",
           SendOk => SumAmt(chk.obs) + KeptOf(chk.sp.d.rcv) = SumPairs(chk.sp.d.snd))
  /\ Check("C05", "spurious failure / success", (IsSend /\ ~chk.huge /\ chk.sp.err = "") => ObsOk)
  /\ Check("C05", "huge amount", ~chk.huge)

\* ---- C06: allotments split exactly (corpus: one allotment on one side, distinct accounts)
C06_Shares ==
  /\ Check("C06", "source shares differ", (SendOk /\ KeptOf(chk.sp.d.rcv) = 0) => \A a \in Names(chk.obs, 1) \cup PairNames(chk.sp.d.snd) : SumWhere(chk.obs, 1, a) = SndDebits(chk.sp.d.snd, a))
  /\ Check("C06", "destination shares differ", SendOk => \A a \in (Names(chk.obs, 2) \cup PairNames(chk.sp.d.rcv)) \ {KEPT} : SumWhere(chk.obs, 2, a) = RcvCredits(chk.sp.d.rcv, a))
  /\ Check("C06", "shares do not add up", SendOk => SumAmt(chk.obs) + KeptOf(chk.sp.d.rcv) = Need)
  /\ Check("C06", "allotment sum accepted/rejected wrongly",
           (IsSend /\ ~chk.huge) => ((chk.sp.err = E_AllotSum => ObsIs(E_AllotSum)) /\ (chk.obsst = E_AllotSum => chk.sp.err = E_AllotSum)))
  /\ Check("C06", "spurious failure", (IsSend /\ ~chk.huge /\ chk.sp.err = "") => ObsOk)
  /\ Check("C06", "huge amount", ~chk.huge)

\* ---- C07: first-come-first-served pairing
C07_Flow ==
  /\ Check("C07", "flow matrix differs from the in-order pairing",
           SendOk => LET e == WithAsset(ExpPost, chk.sp.d.asset) IN
                     \A p \in FlowPairs(chk.obs) \cup FlowPairs(e) : FlowSum(chk.obs, p[1], p[2]) = FlowSum(e, p[1], p[2]))
  /\ Check("C07", "spurious failure", (IsSend /\ ~chk.huge /\ chk.sp.err = "") => ObsOk)
  /\ Check("C07", "huge amount", ~chk.huge)

\* ---- metadata written by the script (C09 / C13 use it)
Meta_Final ==
  Check("META", "final metadata differs",
        (chk.kind = "outcome" /\ ObsOk /\ env.err = "" /\ S.err = "") =>
           /\ DOMAIN S.tx = DOMAIN O.txmeta /\ \A k \in DOMAIN S.tx : S.tx[k] = O.txmeta[k]
           /\ DOMAIN S.am = DOMAIN O.acctmeta
           /\ \A a \in DOMAIN S.am : DOMAIN S.am[a] = DOMAIN O.acctmeta[a] /\ \A k \in DOMAIN S.am[a] : S.am[a][k] = O.acctmeta[a][k])

\* ---- save (design-level cross-check used by C08): no posting, negative amount rejected
C08_SaveStep ==
  /\ Check("C08", "save produced postings", chk.kind = "save" => chk.obs = <<>>)
  /\ Check("C08", "negative save accepted / non-negative save rejected",
           (chk.kind = "save" /\ chk.nxerr \in {"", E_NegAmount}) => ((chk.nxerr = E_NegAmount => ObsIs(E_NegAmount)) /\ (chk.obsst = E_NegAmount => chk.nxerr = E_NegAmount)))

\* ... and what a save reserved stays where it is: replaying the postings of a later send on the balances the statement
\* started from (starting balances, earlier observed postings, earlier saves by the reservation formula) never takes an
\* account below the lower of that balance and minus the largest overdraft the script grants it - the replay bound of
\* C01, statement by statement, on the REDUCED balance (independent of the drawing semantics)
RECURSIVE ReplayFrom(_,_,_)
ReplayFrom(pre, vis, ps) ==
  IF ps = <<>> THEN TRUE
  ELSE LET p == Head(ps)  v2 == ApplyPost(vis, << p >>) IN
       /\ (p[1] \in Exempt \/ Get(v2, <<p[1], p[4]>>) >= Min(Get(pre, <<p[1], p[4]>>), 0 - MaxOf(Grants(p[1], p[4]))))
       /\ ReplayFrom(pre, v2, Tail(ps))
C08_Reserved ==
  Check("C08", "a statement after a save moved funds the save had reserved (replay of its postings on the balances reduced by the saved amounts goes below the floor)",
        (chk.kind = "send" /\ ObsOk /\ ~chk.huge /\ env.err = "" /\ (\E j \in 1..(si - 2) : C.stmts[j].k = "save")) => ReplayFrom(chk.pre, chk.pre, chk.obs))

\* ---- never a panic, atomic failure (oracle-free part of C12)
C12_NoPanic ==
  /\ Check("C12", "panic", chk.obsst # "panic")
  /\ Check("C12", "a failed execution returned postings or metadata",
           (chk.kind = "outcome" /\ ~ObsOk) => (chk.obs = <<>> /\ ~O.leak))

\* ---- C12: the error names a cause that is present; a program with an unskippable cause returns no result
C12_Typed ==
  /\ C12_NoPanic
  /\ Check("C12", "the error class names no cause present in the script and its inputs",
           (chk.kind = "outcome" /\ ~ObsOk /\ chk.obsst \in KnownClasses) => chk.obsst \in MayFail(C))
  /\ Check("C12", "a result was returned although the script cannot be executed (ill-typed / unknown name / bad variable / negative amount)",
           (chk.kind = "outcome" /\ ObsOk) => MustFail(C) = {})
  \* the reference semantics fixes which parts of a statement are evaluated (every source expression, every cap that is
  \* reached, a destination only when something reaches it): a statement it rejects must not produce a result
  /\ Check("C12", "a statement was executed although the reference semantics rejects it (wrong type / wrong asset / unknown name / unbounded source in a send-all)",
           (IsSend /\ ObsOk /\ ~chk.huge) => chk.sp.err \in {"", E_MissingFunds})

\* ---- behaviour generation for the relational checks C08 / C09: the state after every statement
\* (visible balances following the observed postings and the save formula) is printed, one line per split point
VisTriples(v) == SetToSeq({<<k[1], k[2], v[k]>> : k \in DOMAIN v})
EmitSplits ==
  (chk.kind \in {"none", "send", "save", "call"} /\ ~chk.huge /\ env.err = "" /\ (chk.kind = "none" \/ ObsOk)) =>
     PrintT("SPLIT " \o ToJson([id |-> C.id, k |-> si - 1, after |-> chk.kind, vis |-> VisTriples(S.vis)]))

\* bookkeeping
AllConsumed == TLCGet(1) = Cardinality(CaseLines)
NoViolations == TLCGet(2) = 0
Post == AllConsumed /\ NoViolations
ASSUME TLCSet(1, 0) /\ TLCSet(2, 0)
=============================================================================
