SPECIFICATION Spec
INVARIANTS C02_RealTransfer
POSTCONDITION Post
CHECK_DEADLOCK FALSE
