--------------------------------- MODULE Lex ---------------------------------
(* Lexeme-level arithmetic shared by Syntax.tla and Portions.tla: base-ten numerals and the exact
   value of a portion spelling. *)
EXTENDS Integers, Sequences, TLC

\* decimal digits -> number (base ten, leading zeros allowed)
DigitVal(c) == CASE c = "0" -> 0 [] c = "1" -> 1 [] c = "2" -> 2 [] c = "3" -> 3 [] c = "4" -> 4
                 [] c = "5" -> 5 [] c = "6" -> 6 [] c = "7" -> 7 [] c = "8" -> 8 [] c = "9" -> 9 [] OTHER -> -1
RECURSIVE NatOf(_,_,_)
NatOf(s, i, acc) == IF i > Len(s) THEN acc ELSE NatOf(s, i + 1, acc * 10 + DigitVal(SubSeq(s, i, i)))
RECURSIVE Find(_,_,_)
Find(s, c, i) == IF i > Len(s) THEN 0 ELSE IF SubSeq(s, i, i) = c THEN i ELSE Find(s, c, i + 1)
RECURSIVE Strip(_)
Strip(s) == IF Len(s) > 0 /\ SubSeq(s, 1, 1) = " " THEN Strip(SubSeq(s, 2, Len(s)))
            ELSE IF Len(s) > 0 /\ SubSeq(s, Len(s), Len(s)) = " " THEN Strip(SubSeq(s, 1, Len(s) - 1)) ELSE s
RECURSIVE Pow10(_)
Pow10(k) == IF k = 0 THEN 1 ELSE 10 * Pow10(k - 1)
\* the exact fraction denoted by a portion lexeme: "n/d" (optional single spaces around the slash), "p%", "p.q%"
PortionValue(lex) ==
  LET sl == Find(lex, "/", 1) IN
  IF sl > 0 THEN [n |-> NatOf(Strip(SubSeq(lex, 1, sl - 1)), 1, 0), d |-> NatOf(Strip(SubSeq(lex, sl + 1, Len(lex))), 1, 0)]
  ELSE LET body == SubSeq(lex, 1, Len(lex) - 1)       \* without the percent sign
           dot == Find(body, ".", 1) IN
       IF dot = 0 THEN [n |-> NatOf(body, 1, 0), d |-> 100]
       ELSE LET ip == SubSeq(body, 1, dot - 1)  fp == SubSeq(body, dot + 1, Len(body)) IN
            [n |-> NatOf(ip \o fp, 1, 0), d |-> 100 * Pow10(Len(fp))]
\* numerals too long for TLC's integers are carried as digit strings: the canonical form drops leading zeros
RECURSIVE DropZeros(_)
DropZeros(s) == IF Len(s) > 1 /\ SubSeq(s, 1, 1) = "0" THEN DropZeros(SubSeq(s, 2, Len(s))) ELSE s
IsLongRatio(lex) == LET sl == Find(lex, "/", 1) IN sl > 0 /\ (sl - 1 > 9 \/ Len(lex) - sl > 9)
RatioNum(lex) == DropZeros(Strip(SubSeq(lex, 1, Find(lex, "/", 1) - 1)))
RatioDen(lex) == DropZeros(Strip(SubSeq(lex, Find(lex, "/", 1) + 1, Len(lex))))

=============================================================================
