SPECIFICATION Spec
CONSTANTS Family = "dst"
 Scope = "quick"
 Emit = TRUE
INVARIANTS EmitInv
CHECK_DEADLOCK FALSE
