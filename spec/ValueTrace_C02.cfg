SPECIFICATION Spec
INVARIANTS C02_ScaledPositive
POSTCONDITION Post
CHECK_DEADLOCK FALSE
