----------------------------- MODULE Concurrent -----------------------------
(***************************************************************************)
(* C11: N runs of one script ("send [USD Amt] from @a to @b", NStmts       *)
(* times) over a heap of objects that the caller's store and the runs may  *)
(* SHARE.  The store hands out its own objects (as the bundled static      *)
(* store does); the constant Merge says what a run's cache refers to after *)
(* a fetch:                                                                *)
(*   "alias"   the store's maps themselves (pinned tree: cache = reply)    *)
(*   "shallow" private maps, but the integer cells of the reply (a merge   *)
(*             that copies pointers)                                       *)
(*   "deep"    private maps and private copies of the integers             *)
(* Steps of a run: fetch; per statement: read the source cell, begin a     *)
(* write, end the write (two steps, so that overlapping conflicting        *)
(* accesses are states), post.  TLC explores every interleaving.           *)
(* Invariants: the caller's objects keep their initial value and keys; no  *)
(* two runs are inside conflicting accesses to one cell; every finished    *)
(* run posted exactly what it posts when executed alone.                   *)
(* With Emit the schedule (sequence of run ids) of every finished          *)
(* behaviour is printed; the harness forces it on real goroutines through  *)
(* the blocking hook.                                                      *)
(***************************************************************************)
EXTENDS Integers, Sequences, FiniteSets, TLC, Json
CONSTANTS Merge, Procs, NStmts, Amt, A0, Emit

VARIABLES cell,      \* cell id -> Int
          skeys,     \* keys present in the store's own map
          cacheRef,  \* run -> [a |-> cell id, b |-> cell id]
          pc, si, tmp, posted,
          writing,   \* cell id -> set of runs inside a write to it
          reading,   \* cell id -> set of runs inside a read of it
          sched      \* history: which run moved
vars == <<cell, skeys, cacheRef, pc, si, tmp, posted, writing, reading, sched>>

Store(k) == <<0, k>>
Priv(p, k) == <<p, k>>
Cells == {Store("a"), Store("b")} \cup {Priv(p, k) : p \in Procs, k \in {"a", "b"}}

Init == /\ cell = [c \in Cells |-> IF c = Store("a") THEN A0 ELSE 0]
        /\ skeys = {"a"}
        /\ cacheRef = [p \in Procs |-> [a |-> Store("a"), b |-> Store("b")]]
        /\ pc = [p \in Procs |-> "fetch"] /\ si = [p \in Procs |-> 1] /\ tmp = [p \in Procs |-> 0]
        /\ posted = [p \in Procs |-> <<>>]
        /\ writing = [c \in Cells |-> {}] /\ reading = [c \in Cells |-> {}]
        /\ sched = <<>>

Moved(p) == sched' = IF Emit THEN Append(sched, p) ELSE sched   \* the history is only kept when behaviours are printed

\* the store returns its own objects; the run merges them into its cache
Fetch(p) == /\ pc[p] = "fetch"
            /\ CASE Merge = "deep" ->
                      /\ cacheRef' = [cacheRef EXCEPT ![p] = [a |-> Priv(p, "a"), b |-> Priv(p, "b")]]
                      /\ cell' = [cell EXCEPT ![Priv(p, "a")] = cell[Store("a")], ![Priv(p, "b")] = 0]
                      /\ UNCHANGED skeys
                 [] Merge = "shallow" ->        \* private map, the store's cell for the known key, a private default for the other
                      /\ cacheRef' = [cacheRef EXCEPT ![p] = [a |-> Store("a"), b |-> Priv(p, "b")]]
                      /\ UNCHANGED <<cell, skeys>>
                 [] Merge = "alias" ->          \* the store's map: inserting the default entry for b changes the caller's map
                      /\ cacheRef' = [cacheRef EXCEPT ![p] = [a |-> Store("a"), b |-> Store("b")]]
                      /\ skeys' = skeys \cup {"b"} /\ UNCHANGED cell
            /\ pc' = [pc EXCEPT ![p] = "rbegin"] /\ Moved(p)
            /\ UNCHANGED <<si, tmp, posted, writing, reading>>

RBegin(p) == /\ pc[p] = "rbegin"
             /\ reading' = [reading EXCEPT ![cacheRef[p].a] = @ \cup {p}]
             /\ pc' = [pc EXCEPT ![p] = "rend"] /\ Moved(p)
             /\ UNCHANGED <<cell, skeys, cacheRef, si, tmp, posted, writing>>
REnd(p) == /\ pc[p] = "rend"
           /\ tmp' = [tmp EXCEPT ![p] = IF cell[cacheRef[p].a] >= Amt THEN Amt ELSE cell[cacheRef[p].a]]
           /\ reading' = [reading EXCEPT ![cacheRef[p].a] = @ \ {p}]
           /\ pc' = [pc EXCEPT ![p] = IF tmp'[p] = Amt THEN "wbegin" ELSE "fail"] /\ Moved(p)
           /\ UNCHANGED <<cell, skeys, cacheRef, si, posted, writing>>
WBegin(p) == /\ pc[p] = "wbegin"
             /\ writing' = [writing EXCEPT ![cacheRef[p].a] = @ \cup {p}, ![cacheRef[p].b] = @ \cup {p}]
             /\ pc' = [pc EXCEPT ![p] = "wend"] /\ Moved(p)
             /\ UNCHANGED <<cell, skeys, cacheRef, si, tmp, posted, reading>>
WEnd(p) == /\ pc[p] = "wend"
           /\ cell' = [cell EXCEPT ![cacheRef[p].a] = @ - tmp[p], ![cacheRef[p].b] = @ + tmp[p]]
           /\ writing' = [writing EXCEPT ![cacheRef[p].a] = @ \ {p}, ![cacheRef[p].b] = @ \ {p}]
           /\ posted' = [posted EXCEPT ![p] = Append(@, tmp[p])]
           /\ si' = [si EXCEPT ![p] = @ + 1]
           /\ pc' = [pc EXCEPT ![p] = IF si[p] = NStmts THEN "done" ELSE "rbegin"] /\ Moved(p)
           /\ UNCHANGED <<skeys, cacheRef, tmp, reading>>

Next == \E p \in Procs : Fetch(p) \/ RBegin(p) \/ REnd(p) \/ WBegin(p) \/ WEnd(p)
Spec == Init /\ [][Next]_vars

\* ---- C11 ----
InputsUntouched == cell[Store("a")] = A0 /\ cell[Store("b")] = 0 /\ skeys = {"a"}
NoRace == \A c \in Cells : /\ Cardinality(writing[c]) <= 1
                           /\ (writing[c] # {} => reading[c] \subseteq writing[c])
Alone == [i \in 1..NStmts |-> Amt]            \* what one run posts when executed alone (A0 >= NStmts * Amt)
Deterministic == \A p \in Procs : (pc[p] = "done" => posted[p] = Alone) /\ pc[p] # "fail"
\* schedules at the granularity of the harness gates: fetch = 1 gate, each statement = 1 gate
EmitInv == (Emit /\ \A p \in Procs : pc[p] \in {"done", "fail"}) => PrintT("GEN " \o ToJson(sched))
=============================================================================
