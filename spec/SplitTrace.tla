----------------------------- MODULE SplitTrace -----------------------------
(***************************************************************************)
(* Relational checks C08 / C09, real execution against real execution.     *)
(* For a recorded whole run and a split point k the harness executed       *)
(*   prefix = statements 1..k alone on the starting balances, and          *)
(*   suffix = statements k+1..n alone on the state after statement k,      *)
(* where that state was PRINTED BY TLC from the specification state of     *)
(* MachineTrace (starting balances updated by the logged postings and, for *)
(* save, by the reservation formula of Sem.tla).                           *)
(* C09: whole = prefix ++ suffix (postings as lists, metadata key by key). *)
(* C08: the same at the split right after a save, reported only when the   *)
(*      control (the same script with that save deleted) composes.         *)
(***************************************************************************)
EXTENDS Sem, Json, IOUtils
Trace == ndJsonDeserialize(IOEnv.TRACE)
N == Len(Trace)
VARIABLE l
Init == l \in 1..N
Next == UNCHANGED l
Spec == Init /\ [][Next]_l
T == Trace[l]
Report(prop, what) ==
  /\ TLCSet(2, TLCGet(2) + 1)
  /\ PrintT("VIOL " \o ToJson([prop |-> prop, id |-> T.id, line |-> l, what |-> what, k |-> T.k]))
Check(prop, what, cond) == cond \/ Report(prop, what)

\* later values win key by key, every other key is kept
MergeMeta(m1, m2) == [k \in DOMAIN m1 \cup DOMAIN m2 |-> IF k \in DOMAIN m2 THEN m2[k] ELSE m1[k]]
MergeAcct(a1, a2) == [a \in DOMAIN a1 \cup DOMAIN a2 |->
                        IF a \in DOMAIN a1 /\ a \in DOMAIN a2 THEN MergeMeta(a1[a], a2[a]) ELSE IF a \in DOMAIN a2 THEN a2[a] ELSE a1[a]]
SameRec(f, g) == DOMAIN f = DOMAIN g /\ \A k \in DOMAIN f : f[k] = g[k]
SameAcct(f, g) == DOMAIN f = DOMAIN g /\ \A a \in DOMAIN f : SameRec(f[a], g[a])
Composes(w, p, s) ==
  /\ w.st = "ok" => (p.st = "ok" /\ s.st = "ok")
  /\ (w.st = "ok" /\ p.st = "ok" /\ s.st = "ok") =>
        /\ w.post = p.post \o s.post
        /\ SameRec(w.txmeta, MergeMeta(p.txmeta, s.txmeta))
        /\ SameAcct(w.acctmeta, MergeAcct(p.acctmeta, s.acctmeta))
  /\ w.st # "ok" => (p.st # "ok" \/ s.st # "ok")

C09_Split == Check("C09", "whole run differs from prefix followed by suffix on the state left by the prefix",
                   T.e = "split" => Composes(T.whole, T.prefix, T.suffix))
C08_SaveSplit == Check("C08", "statements after a save do not see the balance reduced by the saved amount (floored at zero, negative balances untouched)",
                   (T.e = "split" /\ T.after = "save" /\ T.hasctl /\ Composes(T.cwhole, T.cprefix, T.csuffix)) => Composes(T.whole, T.prefix, T.suffix))
Post == TLCGet(2) = 0
ASSUME TLCSet(2, 0)
=============================================================================
