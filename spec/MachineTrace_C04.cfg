SPECIFICATION Spec
INVARIANTS C04_Debits
POSTCONDITION Post
CHECK_DEADLOCK FALSE
