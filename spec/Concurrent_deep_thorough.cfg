SPECIFICATION Spec
CONSTANTS Merge = "deep"
 Procs = {1, 2, 3}
 NStmts = 2
 Amt = 2
 A0 = 20
 Emit = FALSE
INVARIANTS InputsUntouched NoRace Deterministic
CHECK_DEADLOCK FALSE
