SPECIFICATION Spec
INVARIANTS C07_Flow
POSTCONDITION Post
CHECK_DEADLOCK FALSE
