SPECIFICATION Spec
CONSTANTS MaxDen = 6
 MaxLen = 3
 MaxN = 24
INVARIANTS C06_Sem
CHECK_DEADLOCK FALSE
