SPECIFICATION Spec
CONSTANTS MaxDen = 6
 MaxLen = 3
 MaxN = 24
INVARIANTS C06_Sem C06_ScaleLemma
CHECK_DEADLOCK FALSE
