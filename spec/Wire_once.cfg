SPECIFICATION Spec
CONSTANTS Scope = "quick"
 ReadMode = "once"
 Emit = FALSE
INVARIANTS Reassembly
CHECK_DEADLOCK FALSE
