SPECIFICATION Spec
CONSTANTS Seeds = {1}
 OneGap = FALSE
 WithStatic = TRUE
INVARIANTS EmitInv
CHECK_DEADLOCK FALSE
