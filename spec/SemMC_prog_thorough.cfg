SPECIFICATION Spec
CONSTANTS Family = "prog"
 Scope = "thorough"
 Emit = FALSE
INVARIANTS C01_Sem C02_Sem C03_Sem C08_Sem
CHECK_DEADLOCK FALSE
