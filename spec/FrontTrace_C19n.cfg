SPECIFICATION Spec
INVARIANTS C19_Navigation
POSTCONDITION Post
CHECK_DEADLOCK FALSE
