------------------------------- MODULE SemErr -------------------------------
(***************************************************************************)
(* Which failures are genuinely present in a program + inputs (C12).       *)
(*   MayFail(c)  every error class some cause of which is present: an      *)
(*               execution that fails must fail with one of these;         *)
(*   MustFail(c) causes that no evaluation strategy can skip (declaration  *)
(*               phase, the amount of a send / save, the account of a save,*)
(*               a call statement): an execution of such a program must    *)
(*               not return a result.                                      *)
(* Evaluation order and laziness are deliberately NOT pinned: the sets are *)
(* unions over every expression position.  Only two causes depend on       *)
(* balances (insufficient funds, negative balance()); they are "may"       *)
(* whenever a construct that can raise them is present and never "must".   *)
(***************************************************************************)
EXTENDS Sem

ErrOf(v) == IF IsErr(v) THEN {v.e} ELSE {}
IsWorld(e, env) == LET v == Eval(e, env) IN ~IsErr(v) /\ v.t = "acct" /\ v.v = WORLD
\* causes of evaluating e and requiring type t
Want(e, env, t) == LET v == Eval(e, env) IN IF IsErr(v) THEN {v.e} ELSE IF v.t # t THEN {E_Type} ELSE {}
\* a monetary of asset as ("" = statement asset unknown: any mismatch is possible)
WantMon(e, env, as) == LET v == Eval(e, env) IN
   IF IsErr(v) THEN {v.e} ELSE IF v.t # "mon" THEN {E_Type}
   ELSE IF as = "" THEN {E_Currency} ELSE IF v.a # as THEN {E_Currency} ELSE {}
PortionCauses(p, env) == IF p.k = "remaining" THEN {} ELSE Want(p, env, "portion")
\* allotment sum (only decidable when every portion evaluates)
AllotCauses(it, env) ==
  LET ps == Portions(it, env) IN
  UNION {PortionCauses(it[i].p, env) : i \in 1..Len(it)} \cup
  (IF FirstErr(ps) = "" THEN (LET al == Allot(0, ps) IN IF al.err # "" THEN {al.err} ELSE {}) ELSE {})

RECURSIVE SrcCauses(_,_,_,_,_)
\* all: the statement is a send-all; capped: an enclosing max exists
SrcCauses(s, env, as, all, capped) ==
  CASE s.k = "acct" -> Want(s.e, env, "acct") \cup
                       (IF all /\ ~capped /\ IsWorld(s.e, env) THEN {E_UnbInSendAll} ELSE {})
    [] s.k = "ovd"  -> Want(s.e, env, "acct") \cup WantMon(s.b, env, as) \cup
                       (IF all /\ ~capped /\ IsWorld(s.e, env) THEN {E_UnbInSendAll} ELSE {})
    [] s.k = "ovdu" -> Want(s.e, env, "acct") \cup (IF all /\ ~capped THEN {E_UnbInSendAll} ELSE {})
    [] s.k = "seq"  -> UNION {SrcCauses(s.s[i], env, as, all, capped) : i \in 1..Len(s.s)}
    [] s.k = "cap"  -> WantMon(s.c, env, as) \cup SrcCauses(s.s, env, as, all, TRUE)
    [] s.k = "allot" -> AllotCauses(s.it, env) \cup (IF all /\ ~capped THEN {E_AllotInSendAll} ELSE {})
                        \cup UNION {SrcCauses(s.it[i].s, env, as, all, capped) : i \in 1..Len(s.it)}
RECURSIVE DstCauses(_,_,_), KodCauses(_,_,_)
KodCauses(k, env, as) == IF k.k = "kept" THEN {} ELSE DstCauses(k, env, as)
DstCauses(d, env, as) ==
  CASE d.k = "acct" -> Want(d.e, env, "acct")
    [] d.k = "ord"  -> UNION {WantMon(d.cl[i].c, env, as) \cup KodCauses(d.cl[i].to, env, as) : i \in 1..Len(d.cl)} \cup KodCauses(d.rem, env, as)
    [] d.k = "allot" -> AllotCauses(d.it, env) \cup UNION {KodCauses(d.it[i].to, env, as) : i \in 1..Len(d.it)}

\* the amount of a send / save: causes and the asset when it can be determined
SentCauses(st, env) ==
  IF st.all THEN Want(st.sent, env, "asset")
  ELSE LET v == Eval(st.sent, env) IN
       IF IsErr(v) THEN {v.e} ELSE IF v.t # "mon" THEN {E_Type} ELSE IF v.v < 0 THEN {E_NegAmount} ELSE {}
SentAssetOf(st, env) == LET v == Eval(st.sent, env) IN
  IF IsErr(v) THEN "" ELSE IF st.all /\ v.t = "asset" THEN v.v ELSE IF ~st.all /\ v.t = "mon" THEN v.a ELSE ""

CallMust(st, env) ==
  LET vs == EvalAll(st.args, env) IN
  UNION {ErrOf(vs[i]) : i \in 1..Len(vs)} \cup
  (CASE st.name = "set_tx_meta" -> (IF Len(vs) # 2 THEN {E_BadArity} ELSE {}) \cup (IF Len(vs) >= 1 /\ ~IsErr(vs[1]) /\ vs[1].t # "str" THEN {E_Type} ELSE {})
     [] st.name = "set_account_meta" -> (IF Len(vs) # 3 THEN {E_BadArity} ELSE {})
                                        \cup (IF Len(vs) >= 1 /\ ~IsErr(vs[1]) /\ vs[1].t # "acct" THEN {E_Type} ELSE {})
                                        \cup (IF Len(vs) >= 2 /\ ~IsErr(vs[2]) /\ vs[2].t # "str" THEN {E_Type} ELSE {})
     [] OTHER -> {E_UnboundFn})

StmtMust(st, env) ==
  CASE st.k = "send" -> SentCauses(st, env)
    [] st.k = "save" -> SentCauses(st, env) \cup Want(st.e, env, "acct")
    [] st.k = "call" -> CallMust(st, env)
StmtMay(st, env) ==
  StmtMust(st, env) \cup
  (IF st.k = "send" THEN SrcCauses(st.src, env, SentAssetOf(st, env), st.all, FALSE) \cup DstCauses(st.dst, env, SentAssetOf(st, env)) \cup {E_MissingFunds}
   ELSE {})

\* every cause present in one declaration (order inside the declaration is not pinned)
DeclCausesOf(c, d, env, flagOvd) ==
  IF d.origin.k = "none" THEN
     (IF d.val.t = "missing" THEN {E_MissingVar} ELSE {}) \cup ErrOf(ReadVal(d))
  ELSE LET args == EvalAll(d.origin.args, env)
           nm == d.origin.name
           argErrs == UNION {ErrOf(args[i]) : i \in 1..Len(args)}
           tyErr(i, t) == IF Len(args) >= i /\ ~IsErr(args[i]) /\ args[i].t # t THEN {E_Type} ELSE {}
       IN argErrs \cup
          (CASE nm = "meta" -> (IF Len(args) # 2 THEN {E_BadArity} ELSE {}) \cup tyErr(1, "acct") \cup tyErr(2, "str")
                               \cup (IF d.val.t = "missing" THEN {E_MetaNotFound} ELSE ErrOf(ReadVal(d)))
             [] nm \in {"balance", "overdraft"} ->
                   (IF nm = "overdraft" /\ ~flagOvd THEN {E_Experimental} ELSE {})
                   \cup (IF Len(args) # 2 THEN {E_BadArity} ELSE {}) \cup tyErr(1, "acct") \cup tyErr(2, "asset")
                   \cup (IF nm = "balance" /\ Len(args) = 2 /\ ~IsErr(args[1]) /\ ~IsErr(args[2]) /\ args[1].t = "acct" /\ args[2].t = "asset"
                            /\ Bal0(c, args[1].v, args[2].v) < 0 THEN {E_NegBalance} ELSE {})
             [] OTHER -> {E_UnboundFn})

RECURSIVE DeclWalk(_,_,_,_)
\* [failed, causes, env]: stops at the first declaration that has a cause
DeclWalk(c, i, env, flagOvd) ==
  IF i > Len(c.vars) THEN [failed |-> FALSE, causes |-> {}, env |-> env]
  ELSE LET cs == DeclCausesOf(c, c.vars[i], env, flagOvd) IN
       IF cs # {} THEN [failed |-> TRUE, causes |-> cs, env |-> env]
       ELSE LET one == Decl(c, << c.vars[i] >>, 1, env, flagOvd) IN DeclWalk(c, i + 1, one.env, flagOvd)

MayFail(c) == LET dw == DeclWalk(c, 1, <<>>, FlagOvd(c)) IN
  IF dw.failed THEN dw.causes ELSE UNION {StmtMay(c.stmts[i], dw.env) : i \in 1..Len(c.stmts)}
MustFail(c) == LET dw == DeclWalk(c, 1, <<>>, FlagOvd(c)) IN
  IF dw.failed THEN dw.causes ELSE UNION {StmtMust(c.stmts[i], dw.env) : i \in 1..Len(c.stmts)}

\* classes this specification knows; anything else observed is left unjudged
KnownClasses == {E_MissingFunds, E_Type, E_UnboundVar, E_UnboundFn, E_BadArity, E_InvalidType, E_MissingVar, E_NegBalance, E_NegAmount,
                 E_AllotInSendAll, E_UnbInSendAll, E_Currency, E_AllotSum, E_MetaNotFound, E_BadPortion, E_BadMonetary, E_BadNumber, E_Experimental, E_BadAccount}
=============================================================================
