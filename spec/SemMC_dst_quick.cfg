SPECIFICATION Spec
CONSTANTS Family = "dst"
 Scope = "quick"
INVARIANTS C02_Sem C03_Sem C05_Sem
CHECK_DEADLOCK FALSE
