SPECIFICATION Spec
INVARIANTS C08_SaveSplit
POSTCONDITION Post
CHECK_DEADLOCK FALSE
