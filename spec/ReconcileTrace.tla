-------------------------- MODULE ReconcileTrace --------------------------
(***************************************************************************)
(* Behaviours generated from Reconcile.tla (every pair of short sender /   *)
(* receiver lists) were fed to the real interpreter.Reconcile; this module *)
(* judges what came back, line by line, against the declarative pairing.   *)
(***************************************************************************)
EXTENDS Sem, Json, IOUtils
Trace == ndJsonDeserialize(IOEnv.TRACE)
N == Len(Trace)
VARIABLE l
Init == l \in 1..N
Next == UNCHANGED l
Spec == Init /\ [][Next]_l
T == Trace[l]
Report(prop, what) ==
  /\ TLCSet(2, TLCGet(2) + 1)
  /\ PrintT("VIOL " \o ToJson([prop |-> prop, id |-> T.id, line |-> l, what |-> what]))
Check(prop, what, cond) == cond \/ Report(prop, what)
P4(ps) == [i \in 1..Len(ps) |-> <<ps[i][1], ps[i][2], ps[i][3], "COIN">>]
Expected == P4(Pair(T.snd, T.rcv, <<>>))
RECURSIVE KeptFrom(_,_,_)
KeptFrom(s, r, a) == IF r = <<>> \/ s = <<>> THEN 0
  ELSE LET x == Head(s)  y == Head(r)  m == Min(x[2], y[2])
           s2 == IF x[2] = m THEN Tail(s) ELSE << <<x[1], x[2]-m>> >> \o Tail(s)
           r2 == IF y[2] = m THEN Tail(r) ELSE << <<y[1], y[2]-m>> >> \o Tail(r)
       IN (IF y[1] = KEPT /\ x[1] = a THEN m ELSE 0) + KeptFrom(s2, r2, a)
RECURSIVE GivenBy(_,_)
GivenBy(s, a) == IF s = <<>> THEN 0 ELSE (IF Head(s)[1] = a THEN Head(s)[2] ELSE 0) + GivenBy(Tail(s), a)
C07_Reconcile ==
  /\ Check("C07", "Reconcile failed or panicked", T.st = "ok")
  /\ Check("C07", "flow matrix differs from the in-order pairing",
           T.st = "ok" => \A k \in FlowPairs(T.post) \cup FlowPairs(Expected) : FlowSum(T.post, k[1], k[2]) = FlowSum(Expected, k[1], k[2]))
  /\ Check("C07", "kept funds were debited or not withheld from the earliest sources",
           T.st = "ok" => \A a \in {T.snd[i][1] : i \in 1..Len(T.snd)} : SumWhere(T.post, 1, a) = GivenBy(T.snd, a) - KeptFrom(T.snd, T.rcv, a))
  /\ Check("C07", "non-positive posting, kept marker or wrong asset in a posting",
           T.st = "ok" => \A i \in 1..Len(T.post) : T.post[i][3] > 0 /\ T.post[i][2] # KEPT /\ T.post[i][1] # KEPT /\ T.post[i][4] = "COIN")
  /\ Check("C07", "the same lists multiplied by a factor beyond 2^31 / 2^63 / 2^64 do not give the multiplied postings",
           "scaled" \in DOMAIN T => T.scaled)
Post == TLCGet(2) = 0
ASSUME TLCSet(2, 0)
=============================================================================
