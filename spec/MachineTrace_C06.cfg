SPECIFICATION Spec
INVARIANTS C06_Shares
POSTCONDITION Post
CHECK_DEADLOCK FALSE
