------------------------------ MODULE AllotMC ------------------------------
(***************************************************************************)
(* C06 at design level: the allotment arithmetic of Sem.tla (Allot) is     *)
(* checked against an INDEPENDENT statement of the property for every      *)
(* portion vector over small denominators and every total up to MaxN:      *)
(*   shares add up to the total; each share is floor(total * portion) or   *)
(*   that plus one; the +1s are given to the earliest clauses; `remaining` *)
(*   stands for one minus the others; a vector without `remaining` whose   *)
(*   sum is not one is rejected.                                           *)
(***************************************************************************)
EXTENDS Sem
CONSTANTS MaxDen, MaxLen, MaxN

Fracs == {[t |-> "portion", n |-> n, d |-> d] : n \in 0..MaxDen, d \in 1..MaxDen} 
ProperFracs == {f \in Fracs : f.n <= f.d}
RemV == [t |-> "remaining"]
\* exact rational arithmetic by cross-multiplication on a common denominator
RECURSIVE DenProd(_), NumOver(_,_)
DenProd(ps) == IF ps = <<>> THEN 1 ELSE (IF IsRem(Head(ps)) THEN 1 ELSE Head(ps).d) * DenProd(Tail(ps))
NumOver(ps, D) == IF ps = <<>> THEN 0 ELSE (IF IsRem(Head(ps)) THEN 0 ELSE Head(ps).n * (D \div Head(ps).d)) + NumOver(Tail(ps), D)
SumIsOne(ps) == NumOver(ps, DenProd(ps)) = DenProd(ps)
SumAtMostOne(ps) == NumOver(ps, DenProd(ps)) <= DenProd(ps)
HasRem(ps) == \E i \in 1..Len(ps) : IsRem(ps[i])

VARIABLES n, ps, res
vars == <<n, ps, res>>
Init == n \in 0..MaxN /\ ps = <<>> /\ res = [err |-> "", sh |-> <<>>]
Vec(k) == [1..k -> ProperFracs]
\* vectors: all proper-fraction vectors (any sum) up to length 2, those summing to one up to MaxLen,
\* and every vector with one `remaining` clause in any position whose other portions sum to at most one
Pick == /\ ps = <<>>
        /\ \E k \in 1..MaxLen : \E v \in Vec(k) :
             \/ (k <= 2 \/ SumIsOne(v)) /\ ps' = v
             \/ \E i \in 1..k : LET w == [j \in 1..k |-> IF j = i THEN RemV ELSE v[j]] IN (k <= 2 \/ SumAtMostOne(w)) /\ ps' = w
        /\ res' = Allot(n, ps') /\ UNCHANGED n
Next == Pick
Spec == Init /\ [][Next]_vars

\* independent floor share of clause i: floor(n * p_i), with p_i = 1 - sum(others) for `remaining`
D == DenProd(ps)
PNumI(i) == IF IsRem(ps[i]) THEN D - NumOver(ps, D) ELSE ps[i].n * (D \div ps[i].d)
FloorI(i) == (n * PNumI(i)) \div D
C06_Sem ==
  ps # <<>> =>
    IF (~HasRem(ps) /\ ~SumIsOne(ps)) \/ (HasRem(ps) /\ ~SumAtMostOne(ps)) THEN res.err = E_AllotSum
    ELSE /\ res.err = ""
         /\ SumTo(res.sh, Len(ps)) = n
         /\ \A i \in 1..Len(ps) : res.sh[i] \in {FloorI(i), FloorI(i) + 1}
         /\ \A i, j \in 1..Len(ps) : (i < j /\ res.sh[j] = FloorI(j) + 1) => res.sh[i] = FloorI(i) + 1
         /\ \A i \in 1..Len(ps) : res.sh[i] >= 0
\* Scaling lemma used by the big-number lift: when every share is exact (n * p_i is an integer), multiplying the
\* total by K multiplies every share by K
Exact == \A i \in 1..Len(ps) : (n * PNumI(i)) % D = 0
C06_ScaleLemma == (ps # <<>> /\ res.err = "" /\ Exact) =>
   \A K \in {2, 3, 7} : LET r2 == Allot(K * n, ps) IN r2.err = "" /\ \A i \in 1..Len(ps) : r2.sh[i] = K * res.sh[i]
=============================================================================
