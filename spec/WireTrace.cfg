SPECIFICATION Spec
INVARIANTS C19_Wire
POSTCONDITION Post
CHECK_DEADLOCK FALSE
