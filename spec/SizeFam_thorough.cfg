SPECIFICATION Spec
CONSTANTS Thresholds = {8, 10, 16, 20, 25, 32, 40, 50, 64, 100, 128, 200, 250, 255, 256, 500, 512, 1000, 1024}
 Offsets = {0, 1, 2, 3, 4, 5, 6, 7, 8, 9, 10}
 Shift = 8
 Unused = {0, 2, 3, 8, 20}
 Kinds = {"unbound", "mismatch", "dupdecl", "warning"}
INVARIANTS SizeOk EmitInv
CHECK_DEADLOCK FALSE
