SPECIFICATION Spec
INVARIANTS C20_Run C20_Check
POSTCONDITION Post
CHECK_DEADLOCK FALSE
