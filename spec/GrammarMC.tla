------------------------------ MODULE GrammarMC ------------------------------
(* Design-level link between the printer and the recognizer: every token sequence Printer!PProg
   prints for a generated tree is accepted by Grammar!Accepts (one state per tree), and a token
   sequence with one unbalanced bracket removed is not. *)
EXTENDS Printer, Grammar, Json, IOUtils
Trees == ndJsonDeserialize(IOEnv.TREES)
VARIABLE t
Init == t \in 1..Len(Trees)
Next == UNCHANGED t
Spec == Init /\ [][Next]_t
Toks == PProg(Trees[t]).toks
C14_PrinterInLanguage == Accepts(Toks)
Brackets == {i \in 1..Len(Toks) : Toks[i] \in {"(", ")", "[", "]", "{", "}"}}
C14_UnbalancedRejected == \A i \in Brackets : ~Accepts(SubSeq(Toks, 1, i - 1) \o SubSeq(Toks, i + 1, Len(Toks)))
=============================================================================
