SPECIFICATION Spec
CONSTANTS Scope = "quick"
 ReadMode = "full"
 Emit = FALSE
INVARIANTS Reassembly Quiescence
PROPERTIES Progress
CHECK_DEADLOCK FALSE
