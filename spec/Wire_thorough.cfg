SPECIFICATION Spec
CONSTANTS Scope = "thorough"
 ReadMode = "full"
 Emit = FALSE
INVARIANTS Reassembly Quiescence
PROPERTIES Progress
CHECK_DEADLOCK FALSE
