SPECIFICATION Spec
CONSTANTS Seeds = {1, 2, 3}
 OneGap = FALSE
 WithStatic = FALSE
INVARIANTS C15_TokensOrdered C15_Nesting EmitInv
CHECK_DEADLOCK FALSE
