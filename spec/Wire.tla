-------------------------------- MODULE Wire --------------------------------
(***************************************************************************)
(* The transport of the language server (internal/lsp/server.go) as two    *)
(* processes and a pipe (C19 below the handlers): the client writes a      *)
(* stream of frames  header CR LF CR LF body  in chunks of its choosing;   *)
(* the operating system hands the server any non-empty prefix of what is   *)
(* in flight (short reads); the server's buffered reader consumes one      *)
(* header block, then exactly `length` body bytes (io.ReadFull), decodes,  *)
(* answers, and starts over.                                               *)
(*   Reassembly  whatever the chunking and the short reads, the decoded    *)
(*               messages are the sent messages, whole, in order;          *)
(*   Quiescence  when everything was written and nothing can move, every   *)
(*               message has been decoded.                                 *)
(* ReadMode = "once" is the classic deviation (one Read for the body       *)
(* instead of ReadFull): TLC refutes Reassembly for it.                    *)
(* With Emit = TRUE the chosen cut positions are printed, in structural    *)
(* terms (message, region, offset), for replay against the real binary.    *)
(***************************************************************************)
EXTENDS Integers, Sequences, FiniteSets, TLC, Json

CONSTANTS Scope,      \* "quick" | "thorough" | "gen3"
          ReadMode,   \* "full" | "once"
          Emit
\* body length of each message; the client splits the stream at up to MaxCuts positions
Bodies  == IF Scope = "thorough" THEN <<2, 3, 2, 2>> ELSE <<2, 2, 2, 2>>
MaxCuts == IF Scope = "quick" THEN 2 ELSE 3

HLen == 2
NMsg == Len(Bodies)
FrameOf(i) == [k \in 1..HLen |-> <<"h", i, k>>] \o [k \in 1..4 |-> <<"s", i, k>>] \o [k \in 1..Bodies[i] |-> <<"b", i, k>>]
RECURSIVE StreamFrom(_)
StreamFrom(i) == IF i > NMsg THEN <<>> ELSE FrameOf(i) \o StreamFrom(i + 1)
Stream == StreamFrom(1)
L == Len(Stream)
BodyOf(i) == [k \in 1..Bodies[i] |-> <<"b", i, k>>]

VARIABLES cuts,     \* set of positions after which the client ends a write (chosen up front)
          sent,     \* number of bytes written so far
          pipe,     \* bytes in flight
          buf,      \* the server's buffered reader
          mode,     \* "hdr" | "body"
          need,     \* body bytes still to read
          cur,      \* index of the message being read
          decoded   \* bodies handed to the handler
vars == <<cuts, sent, pipe, buf, mode, need, cur, decoded>>

\* (built constructively: filtering SUBSET (1..L-1) by size would enumerate 2^(L-1) sets)
P == 1..(L - 1)
CutSets == {{}} \cup {{a} : a \in P} \cup {{a, b} : a \in P, b \in P}
           \cup (IF MaxCuts >= 3 THEN {{a, b, c} : a \in P, b \in P, c \in P} ELSE {})
Init == /\ cuts \in CutSets
        /\ sent = 0 /\ pipe = <<>> /\ buf = <<>> /\ mode = "hdr" /\ need = 0 /\ cur = 1 /\ decoded = <<>>

\* the client writes up to the next cut (or the end)
NextCut == IF \E c \in cuts : c > sent THEN CHOOSE c \in cuts : c > sent /\ \A d \in cuts : d > sent => c <= d ELSE L
Write == /\ sent < L
         /\ pipe' = pipe \o SubSeq(Stream, sent + 1, NextCut)
         /\ sent' = NextCut
         /\ UNCHANGED <<cuts, buf, mode, need, cur, decoded>>
\* a read system call returns any non-empty prefix of what is in flight
Fill == /\ pipe # <<>>
        /\ \E n \in 1..Len(pipe) : buf' = buf \o SubSeq(pipe, 1, n) /\ pipe' = SubSeq(pipe, n + 1, Len(pipe))
        /\ UNCHANGED <<cuts, sent, mode, need, cur, decoded>>
\* the header block is complete when its four separator bytes are buffered
HeaderEnd == IF \E k \in 1..Len(buf) : buf[k] = <<"s", cur, 4>> THEN CHOOSE k \in 1..Len(buf) : buf[k] = <<"s", cur, 4>> ELSE 0
ReadHeader == /\ mode = "hdr" /\ cur <= NMsg /\ HeaderEnd > 0
              /\ buf' = SubSeq(buf, HeaderEnd + 1, Len(buf))
              /\ mode' = "body" /\ need' = Bodies[cur]
              /\ UNCHANGED <<cuts, sent, pipe, cur, decoded>>
ReadBody == /\ mode = "body"
            /\ IF ReadMode = "full"
               THEN /\ Len(buf) >= need
                    /\ decoded' = Append(decoded, SubSeq(buf, 1, need))
                    /\ buf' = SubSeq(buf, need + 1, Len(buf))
               ELSE \* one Read: whatever is buffered (at least one byte), at most `need`
                    /\ (buf # <<>> \/ need = 0)
                    /\ LET n == IF Len(buf) < need THEN Len(buf) ELSE need IN
                       /\ decoded' = Append(decoded, SubSeq(buf, 1, n))
                       /\ buf' = SubSeq(buf, n + 1, Len(buf))
            /\ mode' = "hdr" /\ need' = 0 /\ cur' = cur + 1
            /\ UNCHANGED <<cuts, sent, pipe>>
Next == Write \/ Fill \/ ReadHeader \/ ReadBody
Spec == Init /\ [][Next]_vars

Reassembly == \A i \in 1..Len(decoded) : i <= NMsg /\ decoded[i] = BodyOf(i)
Quiet == sent = L /\ pipe = <<>> /\ ~(ENABLED ReadHeader) /\ ~(ENABLED ReadBody)
Quiescence == Quiet => Len(decoded) = NMsg
\* termination: every step moves a byte forward or finishes a phase
Variant == 4 * (L - sent) + 3 * Len(pipe) + 2 * Len(buf) + (IF mode = "hdr" THEN 1 ELSE 0) + 4 * (NMsg + 1 - cur)
Progress == [][Variant' < Variant]_vars

\* ---- replay: the cut positions in structural terms
Where(p) == LET b == Stream[p] IN [msg |-> b[2], region |-> b[1], off |-> b[3],
                                   of |-> IF b[1] = "h" THEN HLen ELSE IF b[1] = "s" THEN 4 ELSE Bodies[b[2]]]
RECURSIVE SetToSortedSeq(_)
SetToSortedSeq(S) == IF S = {} THEN <<>> ELSE LET m == CHOOSE x \in S : \A y \in S : x <= y IN <<m>> \o SetToSortedSeq(S \ {m})
EmitInv == (Emit /\ sent = 0 /\ pipe = <<>> /\ buf = <<>> /\ decoded = <<>>) =>
   PrintT("GEN " \o ToJson([cuts |-> [j \in 1..Cardinality(cuts) |-> Where(SetToSortedSeq(cuts)[j])]]))
=============================================================================
