SPECIFICATION Spec
INVARIANTS C14_ValidAccepted
POSTCONDITION Post
CHECK_DEADLOCK FALSE
