SPECIFICATION Spec
INVARIANTS C14_Total
POSTCONDITION Post
CHECK_DEADLOCK FALSE
