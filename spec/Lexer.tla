------------------------------- MODULE Lexer -------------------------------
(***************************************************************************)
(* The lexer of Numscript.g4, character by character (C14, C15).           *)
(*   Lex(s)  the token list [k, t] (kind as in Grammar!Kind, text) and the *)
(*           list of error texts of the whole input s.                     *)
(* Semantics of an ANTLR lexer: at every position the rule matching the    *)
(* longest prefix wins, ties go to the rule written first; skipped rules   *)
(* (white space, comments) produce nothing.  When no rule matches, the     *)
(* characters consumed up to and including the one at which every rule     *)
(* died are reported as one "token recognition error" and dropped: a lone  *)
(* `$` or `@` swallows the character after it, an unterminated string      *)
(* swallows the rest of its line.  Deliberate corners, stated as they are: *)
(* `5-3` is NUMBER NUMBER; `// c` at the very end (no newline) is ASSET    *)
(* `//` then IDENT; an unterminated comment is ASSET `/`, STAR, ...;       *)
(* `1/` is an ASSET; `"a\"` is a whole string (the backslash is a plain    *)
(* character when that is the only way to close).                          *)
(* Not specified: a comment opener inside a comment (nesting).             *)
(***************************************************************************)
EXTENDS Integers, Sequences, FiniteSets, TLC

LowerL == {"a","b","c","d","e","f","g","h","i","j","k","l","m","n","o","p","q","r","s","t","u","v","w","x","y","z"}
UpperL == {"A","B","C","D","E","F","G","H","I","J","K","L","M","N","O","P","Q","R","S","T","U","V","W","X","Y","Z"}
DigitL == {"0","1","2","3","4","5","6","7","8","9"}
WsL    == {" ", "\t", "\r", "\n"}
NlL    == {"\r", "\n"}
KeywordsL == {"vars", "max", "source", "destination", "send", "from", "up", "to", "remaining", "allowing", "unbounded", "overdraft", "kept", "save"}
PunctL == {"(", ")", "[", "]", "{", "}", ",", "=", "*", "-", "+"}

Ch(s, i) == IF i >= 1 /\ i <= Len(s) THEN SubSeq(s, i, i) ELSE ""
Two(s, i) == IF i >= 1 /\ i + 1 <= Len(s) THEN SubSeq(s, i, i + 1) ELSE ""
RECURSIVE Run(_,_,_)
Run(s, i, S) == IF Ch(s, i) \in S THEN 1 + Run(s, i + 1, S) ELSE 0
\* first position >= k whose two characters are w (0 when none)
RECURSIVE FirstTwo(_,_,_)
FirstTwo(s, k, w) == IF k + 1 > Len(s) THEN 0 ELSE IF Two(s, k) = w THEN k ELSE FirstTwo(s, k + 1, w)
RECURSIVE FirstIn(_,_,_)
FirstIn(s, k, S) == IF k > Len(s) THEN 0 ELSE IF Ch(s, k) \in S THEN k ELSE FirstIn(s, k + 1, S)

MLLen(s, i) == IF Two(s, i) = "/*" THEN LET e == FirstTwo(s, i + 2, "*/") IN IF e = 0 THEN 0 ELSE e + 2 - i ELSE 0
LCLen(s, i) == IF Two(s, i) = "//" THEN LET e == FirstIn(s, i + 2, NlL) IN IF e = 0 THEN 0 ELSE (e - i) + Run(s, e, NlL) ELSE 0
RECURSIVE StrScan(_,_,_,_)
StrScan(s, i, k, cand) ==
  LET c == Ch(s, k) IN
  IF c = "" \/ c \in NlL THEN cand
  ELSE IF c = "\"" THEN (IF k - 1 > i /\ Ch(s, k - 1) = "\\" THEN StrScan(s, i, k + 1, k - i + 1) ELSE k - i + 1)
  ELSE StrScan(s, i, k + 1, cand)
STRLen(s, i) == IF Ch(s, i) = "\"" THEN StrScan(s, i, i + 1, 0) ELSE 0
IDLen(s, i)  == IF Ch(s, i) \in LowerL THEN 1 + Run(s, i + 1, LowerL \cup {"_"}) ELSE 0
NUMLen(s, i) == IF Ch(s, i) \in DigitL THEN Run(s, i, DigitL)
                ELSE IF Ch(s, i) = "-" /\ Ch(s, i + 1) \in DigitL THEN 1 + Run(s, i + 1, DigitL) ELSE 0
VARLen(s, i) == IF Ch(s, i) = "$" /\ Ch(s, i + 1) \in LowerL \cup {"_"} THEN 2 + Run(s, i + 2, LowerL \cup DigitL \cup {"_"}) ELSE 0
SegL == LowerL \cup UpperL \cup DigitL \cup {"_", "-"}
RECURSIVE AccRest(_,_)
AccRest(s, j) == LET n == Run(s, j, SegL) IN
                 IF Ch(s, j + n) = ":" /\ Run(s, j + n + 1, SegL) > 0 THEN n + 1 + AccRest(s, j + n + 1) ELSE n
ACCLen(s, i) == IF Ch(s, i) = "@" /\ Ch(s, i + 1) \in SegL THEN 1 + AccRest(s, i + 1) ELSE 0
ASSETLen(s, i) == Run(s, i, UpperL \cup DigitL \cup {"/"})
RATIOLen(s, i) == LET d1 == Run(s, i, DigitL)
                      a  == i + d1 + (IF Ch(s, i + d1) = " " THEN 1 ELSE 0)
                      b  == a + 1 + (IF Ch(s, a + 1) = " " THEN 1 ELSE 0)
                      d2 == Run(s, b, DigitL)
                  IN IF d1 > 0 /\ Ch(s, a) = "/" /\ d2 > 0 THEN (b - i) + d2 ELSE 0
PCTLen(s, i) == LET d1 == Run(s, i, DigitL)  j == i + d1  d2 == Run(s, j + 1, DigitL) IN
                IF d1 = 0 THEN 0 ELSE IF Ch(s, j) = "%" THEN d1 + 1
                ELSE IF Ch(s, j) = "." /\ d2 > 0 /\ Ch(s, j + 1 + d2) = "%" THEN d1 + 1 + d2 + 1 ELSE 0

\* candidates <<length, priority (rule order), kind>>; kind "" = skipped
Cands(s, i) ==
  { <<Run(s, i, WsL), 2, "">>, <<MLLen(s, i), 4, "">>, <<LCLen(s, i), 5, "">>,
    <<IF Ch(s, i) \in PunctL THEN 1 ELSE 0, 20, Ch(s, i)>>,
    <<RATIOLen(s, i), 30, "RATIO">>, <<PCTLen(s, i), 31, "PERCENT">>, <<STRLen(s, i), 32, "STRING">>,
    <<NUMLen(s, i), 34, "NUMBER">>, <<VARLen(s, i), 35, "VAR">>, <<ACCLen(s, i), 36, "ACCOUNT">>, <<ASSETLen(s, i), 37, "ASSET">> }
  \cup (LET n == IDLen(s, i)  t == SubSeq(s, i, i + n - 1) IN
        IF n = 0 THEN {} ELSE IF t \in KeywordsL THEN {<<n, 6, t>>} ELSE {<<n, 33, "IDENT">>})
Best(s, i) == LET C == {c \in Cands(s, i) : c[1] > 0} IN
  IF C = {} THEN <<0, 0, "">>
  ELSE CHOOSE c \in C : \A d \in C : d[1] < c[1] \/ (d[1] = c[1] /\ d[2] >= c[2])
\* last position swallowed by the error starting at i
ErrEnd(s, i) ==
  LET c == Ch(s, i) IN
  IF c = "\"" THEN (LET e == FirstIn(s, i + 1, NlL) IN IF e = 0 THEN Len(s) ELSE e)
  ELSE IF c \in {"$", "@"} THEN (IF i + 1 <= Len(s) THEN i + 1 ELSE Len(s))
  ELSE i

RECURSIVE LexFrom(_,_,_,_)
LexFrom(s, i, toks, errs) ==
  IF i > Len(s) THEN [toks |-> toks, errs |-> errs]
  ELSE LET b == Best(s, i) IN
       IF b[1] = 0 THEN LET e == ErrEnd(s, i) IN LexFrom(s, e + 1, toks, Append(errs, SubSeq(s, i, e)))
       ELSE LexFrom(s, i + b[1], IF b[3] = "" THEN toks ELSE Append(toks, [k |-> b[3], t |-> SubSeq(s, i, i + b[1] - 1)]), errs)
Lex(s) == LexFrom(s, 1, <<>>, <<>>)
\* a comment opener inside a comment: left unspecified (nesting)
RECURSIVE NestedFrom(_,_)
NestedFrom(s, i) == IF i > Len(s) THEN FALSE
  ELSE IF Two(s, i) = "/*" THEN (LET e == FirstTwo(s, i + 2, "*/") IN
          IF e = 0 THEN (FirstTwo(s, i + 2, "/*") # 0) \/ NestedFrom(s, i + 1)
          ELSE (LET o == FirstTwo(s, i + 2, "/*") IN o # 0 /\ o < e) \/ NestedFrom(s, e + 2))
  ELSE NestedFrom(s, i + 1)
Unspecified(s) == NestedFrom(s, 1)
KindsOf(toks) == [j \in 1..Len(toks) |-> toks[j].k]
=============================================================================
