--------------------------------- MODULE Cli ---------------------------------
(***************************************************************************)
(* The command line front end (C20).  `numscript run` assembles its        *)
(* effective input from three channels applied in this order: --raw (one   *)
(* JSON object), then the file options (script path, --variables,          *)
(* --balances, --meta), then --stdin (same JSON object); for every field   *)
(* the LAST channel that provides it wins, a field nobody provides keeps   *)
(* its default.  The output must be what the library computes on that      *)
(* effective input.  TLC enumerates every configuration (which channels    *)
(* provide which field); only the last provider carries the real value,    *)
(* the earlier ones a decoy, so a front end that takes a field from the    *)
(* wrong channel produces another result than the library.                 *)
(***************************************************************************)
EXTENDS Integers, Sequences, FiniteSets, TLC, Json
Fields == <<"script", "variables", "balances", "metadata">>
Chans == <<"raw", "opt", "stdin">>                 \* order of application
VARIABLES cfg, stage
vars == <<cfg, stage>>
Subsets == SUBSET {1, 2, 3}
Init == cfg \in [1..4 -> Subsets] /\ stage = "chosen"
Next == UNCHANGED vars
Spec == Init /\ [][Next]_vars
\* the channel whose value is effective for field f (0 = default)
Winner(f) == IF cfg[f] = {} THEN 0 ELSE CHOOSE c \in cfg[f] : \A d \in cfg[f] : d <= c
\* what each channel carries for field f
Carries(f, c) == IF c \notin cfg[f] THEN "none" ELSE IF c = Winner(f) THEN "real" ELSE "decoy"
\* design level: at most one channel carries the real value of a field, and it is the last provider
C20_LastWins == \A f \in 1..4 : \A c \in 1..3 : Carries(f, c) = "real" => (\A d \in cfg[f] : d <= c)
Out == [f \in 1..4 |-> [field |-> Fields[f], raw |-> Carries(f, 1), opt |-> Carries(f, 2), stdin |-> Carries(f, 3), winner |-> Winner(f)]]
EmitInv == PrintT("GEN " \o ToJson(Out))
=============================================================================
