SPECIFICATION Spec
CONSTANTS Family = "dst"
 Scope = "thorough"
 Emit = TRUE
INVARIANTS EmitInv
CHECK_DEADLOCK FALSE
