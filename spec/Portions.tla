------------------------------ MODULE Portions ------------------------------
(***************************************************************************)
(* C13 (a,b): the literal grammar of portions.  Every spelling built from  *)
(* short digit strings (leading zeros included) is enumerated:             *)
(*     ratio    N/D, N / D, N/ D, N /D        (value <= 1, D # 0)          *)
(*     percent  P%, P.Q%                      (value <= 100%)              *)
(* and its exact base-ten value n/d is computed by Syntax!PortionValue.    *)
(* Each spelling is printed as one JSON line; the harness runs it through  *)
(* the real parser + interpreter as a literal and as a portion variable,   *)
(* observed by the rendered metadata value and by the credits of a split   *)
(* of a total that the denominator divides.                                *)
(***************************************************************************)
EXTENDS Lex, FiniteSets, Json
CONSTANTS Digits,     \* digit alphabet, e.g. {"0","1","2","5","9"}
          MaxLenR,    \* max digits of numerator / denominator
          MaxLenP,    \* max digits of the integer part of a percentage
          MaxLenQ     \* max digits of its fractional part (0 = none only)

RECURSIVE DStr(_)
DStr(k) == IF k = 1 THEN Digits ELSE {a \o b : a \in Digits, b \in DStr(k - 1)}
DStrUpTo(k) == UNION {DStr(j) : j \in 1..k}
Seps == {"/", " / ", "/ ", " /"}
Ratios == {x \o s \o y : x \in DStrUpTo(MaxLenR), y \in DStrUpTo(MaxLenR), s \in Seps}
Percents == {p \o "%" : p \in DStrUpTo(MaxLenP)} \cup
            (IF MaxLenQ = 0 THEN {} ELSE {p \o "." \o q \o "%" : p \in DStrUpTo(MaxLenP), q \in DStrUpTo(MaxLenQ)})
InRange(lex) == LET v == PortionValue(lex) IN v.d > 0 /\ v.n <= v.d
Lexemes == {x \in Ratios \cup Percents : InRange(x)}

VARIABLE lx
PInit == lx \in Lexemes
PNext == UNCHANGED lx
PSpec == PInit /\ [][PNext]_lx
\* design-level sanity of PortionValue itself: a percentage is its digits over 100 * 10^|q|, independent of leading zeros
C13_ValueSane == LET v == PortionValue(lx) IN v.n >= 0 /\ v.d > 0 /\ v.n <= v.d
PEmit == PrintT("GEN " \o ToJson([lex |-> lx, n |-> PortionValue(lx).n, d |-> PortionValue(lx).d]))
=============================================================================
