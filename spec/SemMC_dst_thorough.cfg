SPECIFICATION Spec
CONSTANTS Family = "dst"
 Scope = "thorough"
INVARIANTS C02_Sem C03_Sem C05_Sem
CHECK_DEADLOCK FALSE
