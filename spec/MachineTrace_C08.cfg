SPECIFICATION Spec
INVARIANTS C08_SaveStep
POSTCONDITION Post
CHECK_DEADLOCK FALSE
