SPECIFICATION Spec
CONSTANTS Scope = "quick"
INVARIANTS Emit
CHECK_DEADLOCK FALSE
