SPECIFICATION Spec
CONSTANTS Scope = "gen3"
 ReadMode = "full"
 Emit = TRUE
INVARIANTS EmitInv
CHECK_DEADLOCK FALSE
