SPECIFICATION Spec
CONSTANTS MaxArgs = 5
INVARIANTS CallOk EmitInv
CHECK_DEADLOCK FALSE
