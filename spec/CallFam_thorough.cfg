SPECIFICATION Spec
CONSTANTS MaxArgs = 6
INVARIANTS CallOk EmitInv
CHECK_DEADLOCK FALSE
