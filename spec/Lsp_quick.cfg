SPECIFICATION Spec
CONSTANTS NUris = 2
 NTexts = 3
 NProbes = 2
 MaxLen = 3
 MultiChange = TRUE
INVARIANTS C19_LatestOfRightDoc C19_DocsIsLast EmitInv
CHECK_DEADLOCK FALSE
