SPECIFICATION Spec
CONSTANTS NUris = 2
 NTexts = 3
 NProbes = 2
 MaxLen = 3
 MultiChange = TRUE
 TailMode = FALSE
INVARIANTS C19_LatestOfRightDoc C19_DocsIsLast C19_VersionsRestart EmitInv
CHECK_DEADLOCK FALSE
