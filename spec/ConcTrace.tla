------------------------------ MODULE ConcTrace ------------------------------
(***************************************************************************)
(* C11 on real executions (all comparisons real against real): for one     *)
(* program and one set of inputs the harness recorded                      *)
(*   seq      the run executed alone on fresh inputs                       *)
(*   purity   two runs on the SAME store objects and variables map, and    *)
(*            whether those objects still equal their deep copy            *)
(*   repeats  repetitions on fresh inputs                                  *)
(*   flags    feature flag on / off                                        *)
(*   gated    two goroutines sharing everything, forced through the        *)
(*            interleavings that TLC printed from Concurrent.tla           *)
(***************************************************************************)
EXTENDS Sem, Json, IOUtils
Trace == ndJsonDeserialize(IOEnv.TRACE)
N == Len(Trace)
VARIABLE l
Init == l \in 1..N
Next == UNCHANGED l
Spec == Init /\ [][Next]_l
T == Trace[l]
Report(what) ==
  /\ TLCSet(2, TLCGet(2) + 1)
  /\ PrintT("VIOL " \o ToJson([prop |-> "C11", id |-> T.id, line |-> l, what |-> what]))
Check(what, cond) == cond \/ Report(what)
SameRec(f, g) == DOMAIN f = DOMAIN g /\ \A k \in DOMAIN f : f[k] = g[k]
SameAcct(f, g) == DOMAIN f = DOMAIN g /\ \A a \in DOMAIN f : SameRec(f[a], g[a])
Same(x, y) == /\ x.st = y.st /\ x.post = y.post /\ SameRec(x.txmeta, y.txmeta) /\ SameAcct(x.acctmeta, y.acctmeta)
C11_Pure ==
  /\ Check("a run on the caller's store objects differs from the run executed alone", Same(T.purity.first, T.seq))
  /\ Check("running the same script a second time on the same inputs gives another result", Same(T.purity.second, T.seq))
  /\ Check("the balance maps obtained from the store were modified", T.purity.balUnchanged)
  /\ Check("the metadata maps obtained from the store were modified", T.purity.metaUnchanged)
  /\ Check("the variables map was modified", T.purity.varsUnchanged)
  /\ Check("a parsed script run with other variable texts differs from the same run on a freshly parsed script (state kept in the parsed script between runs)",
           ("reuse" \in DOMAIN T) => Same(T.reuse.gotAlt, T.reuse.wantAlt))
  /\ Check("running a parsed script with other variable texts in between changed what it does with the first ones",
           ("reuse" \in DOMAIN T) => Same(T.reuse.again, T.reuse.first))
  /\ Check("a parsed script run with other variable texts against a store that answers exactly what is asked differs from the same run on a freshly parsed script",
           ("reusex" \in DOMAIN T) => Same(T.reusex.gotAlt, T.reusex.wantAlt))
  /\ Check("running a parsed script with other variable texts in between (exact store) changed what it does with the first ones",
           ("reusex" \in DOMAIN T) => Same(T.reusex.again, T.reusex.first))
  /\ Check("the variables map was modified (texts padded with white space)", ("paddedVarsUnchanged" \in DOMAIN T) => T.paddedVarsUnchanged)
  /\ Check("repeated runs differ (non-determinism)", \A i \in 1..Len(T.repeats) : Same(T.repeats[i], T.seq))
  /\ Check("repeated runs fail with differently worded errors (non-determinism of the message)",
           \A i \in 1..Len(T.repeats) : ("msg" \in DOMAIN T.repeats[i] /\ "msg" \in DOMAIN T.seq) => T.repeats[i].msg = T.seq.msg)
  /\ Check("repeated runs on a store that answers exactly what is asked differ (non-determinism)",
           ("repeats_exact" \in DOMAIN T) => \A i \in 1..Len(T.repeats_exact) : Same(T.repeats_exact[i], T.repeats_exact[1]))
  /\ Check("repeated runs with two unreadable variables report different errors (the caller's map order decides)",
           ("repeats_bad" \in DOMAIN T) => \A i \in 1..Len(T.repeats_bad) : Same(T.repeats_bad[i], T.repeats_bad[1]))
  /\ Check("a feature flag changed a result it does not gate", ~T.flags.gated => Same(T.flags.on, T.flags.off))
  /\ Check("a flag name that gates nothing changed a result (next to the gating flag, or alone; repeated with fresh flag sets)",
           ("onplus" \in DOMAIN T.flags) => ((\A i \in 1..Len(T.flags.onplus) : Same(T.flags.onplus[i], T.flags.on))
                                               /\ (\A j \in 1..Len(T.flags.offplus) : Same(T.flags.offplus[j], T.flags.off))))
  /\ Check("interleaved runs interfere: a result differs from the run executed alone",
           \A i \in 1..Len(T.gated) : \A j \in 1..Len(T.gated[i].outs) : Same(T.gated[i].outs[j], T.seq))
  /\ Check("interleaved runs modified their shared inputs", \A i \in 1..Len(T.gated) : T.gated[i].inputsUnchanged)
Post == TLCGet(2) = 0
ASSUME TLCSet(2, 0)
=============================================================================
