SPECIFICATION Spec
CONSTANTS Merge = "merge"
 Faults = TRUE
 Emit = FALSE
 Scope = "thorough"
INVARIANTS C10_WorldNeverAsked C10_StoreIndependent C12_FaultIsError C12_FaultReached C12_Atomic
PROPERTIES C10_KnownGrows C10_ValuesKept Terminates
CHECK_DEADLOCK FALSE
