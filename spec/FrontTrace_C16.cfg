SPECIFICATION Spec
INVARIANTS C16_Checker
POSTCONDITION Post
CHECK_DEADLOCK FALSE
