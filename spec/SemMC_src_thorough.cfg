SPECIFICATION Spec
CONSTANTS Family = "src"
 Scope = "thorough"
INVARIANTS C01_Sem C02_Sem C03_Sem C04_Sem
CHECK_DEADLOCK FALSE
