------------------------------- MODULE DistApa -------------------------------
(***************************************************************************)
(* C05 for UNBOUNDED numbers: typed twin of Sem!DistOrd - an ordered       *)
(* destination  { max c1 to d1  ...  max cM to dM  remaining to r }  as    *)
(* the machine the interpreter runs (receiveFrom, one step per clause).    *)
(* The amount and the caps are symbolic integers without any bound (caps   *)
(* may be negative); a destination is one of A accounts or 0 = kept, and   *)
(* may be named several times.  Apalache discharges the inductive          *)
(* invariant, which gives for every size of number:                        *)
(*  - every clause receives min(cap (negative = 0), what is left);         *)
(*    while something is left every clause passed got exactly its cap;     *)
(*  - `remaining` receives what is left after all caps, never a negative   *)
(*    amount;                                                              *)
(*  - credited plus kept equals the amount sent.                           *)
(***************************************************************************)
EXTENDS Integers, Apalache

M == 3      \* max-clauses
A == 2      \* accounts; destination 0 is `kept`

VARIABLES
  \* @type: Int -> Int;
  dst,      \* clause -> destination (0 = kept)
  \* @type: Int -> Int;
  cap,      \* clause -> cap
  \* @type: Int;
  rdst,     \* destination of the remaining clause (0 = kept)
  \* @type: Int -> Int;
  got,      \* destination -> credited so far (index 0: kept, credited to nobody)
  \* @type: Int;
  i,        \* next clause (M + 1: the remaining clause, M + 2: done)
  \* @type: Int;
  left,
  \* @type: Int;
  n0,
  \* @type: Bool;
  full      \* history: every clause passed so far received exactly its own cap (negative = 0)

Max2(x, y) == IF x >= y THEN x ELSE y
Min2(x, y) == IF x <= y THEN x ELSE y
Clauses == 1..M
Dests == 0..A
Shape == /\ DOMAIN dst = Clauses /\ DOMAIN cap = Clauses /\ DOMAIN got = Dests
         /\ rdst \in Dests /\ \A c \in Clauses : dst[c] \in Dests
Total == got[0] + got[1] + got[2]

Init ==
  /\ dst = Gen(M) /\ cap = Gen(M) /\ got = Gen(A + 1) /\ rdst = Gen(1)
  /\ Shape
  /\ got = [d \in Dests |-> 0]
  /\ n0 = Gen(1) /\ n0 >= 0 /\ left = n0 /\ i = 1 /\ full = TRUE
Same == UNCHANGED <<dst, cap, rdst, n0>>
Clause ==
  /\ i <= M
  /\ LET t == Min2(Max2(0, cap[i]), left) IN
     /\ got' = [got EXCEPT ![dst[i]] = @ + t]
     /\ left' = left - t
     /\ full' = (full /\ t = Max2(0, cap[i]))
  /\ i' = i + 1 /\ Same
Remaining ==
  /\ i = M + 1
  /\ got' = [got EXCEPT ![rdst] = @ + left]
  /\ left' = 0 /\ i' = M + 2 /\ UNCHANGED full /\ Same
Next == Clause \/ Remaining

\* vacuity guard (must be refuted): a negative cap taken at face value - defect D3 of the pinned tree
\* (destination `max [USD -5]` produced a negative posting and inflated what the following clauses receive)
ClauseBad ==
  /\ i <= M
  /\ LET t == Min2(cap[i], left) IN
     /\ got' = [got EXCEPT ![dst[i]] = @ + t]
     /\ left' = left - t
     /\ full' = (full /\ t = Max2(0, cap[i]))
  /\ i' = i + 1 /\ Same
NextBad == ClauseBad \/ Remaining

IndInv ==
  /\ Shape
  /\ i \in 1..(M + 2)
  /\ n0 >= 0 /\ left >= 0
  /\ \A d \in Dests : got[d] >= 0
  /\ Total + left = n0                       \* credited + kept + still to distribute = amount sent
  /\ (left > 0 => full)
  /\ (i = M + 2 => left = 0)
Final == i = M + 2 => Total = n0
IndInvFinal == IndInv /\ Final

\* vacuity guard (must be refuted within M + 1 steps): a run where a later clause and `remaining` both receive something and something is kept
NeverAll == ~(i = M + 2 /\ got[0] > 0 /\ got[1] > 0 /\ got[2] > 0 /\ ~full)

IndInit ==
  /\ dst = Gen(M) /\ cap = Gen(M) /\ got = Gen(A + 1) /\ rdst = Gen(1)
  /\ i = Gen(1) /\ left = Gen(1) /\ n0 = Gen(1) /\ full \in BOOLEAN
  /\ IndInvFinal
=============================================================================
