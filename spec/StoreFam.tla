------------------------------ MODULE StoreFam ------------------------------
(***************************************************************************)
(* An exhaustive family of small multi-statement, two-asset programs for   *)
(* the store protocol (C10): every sequence of up to three statements      *)
(* drawn from sends and saves on the same few accounts under both assets,  *)
(* with and without a balance() origin, over store contents that lack some *)
(* (account, asset) entries altogether.  Machine.tla proves the protocol   *)
(* for one asset and at most two statements; this family is what exposes a *)
(* request made late (after statements have already moved the cache) or    *)
(* not at all: the harness runs every member against the exact, sparse,    *)
(* whole-content and static stores and StoreTrace.tla demands one outcome. *)
(***************************************************************************)
EXTENDS Sem, Json, TLC

CONSTANTS Scope      \* "quick" | "thorough"

S == "USD"
O == "EUR"
Big == Scope = "thorough"
Mon(as, n) == [k |-> "mon", asset |-> [k |-> "asset", v |-> as], amt |-> [k |-> "num", v |-> n]]
Acc(x)  == [k |-> "acct", v |-> x]
Ast(as) == [k |-> "asset", v |-> as]
Var(x)  == [k |-> "var", name |-> x]
LeafA(x) == [k |-> "acct", e |-> Acc(x)]
Call(nm, args) == [k |-> "call", name |-> nm, args |-> args]

SrcFam(as) == { LeafA("a"),
                [k |-> "seq", s |-> <<LeafA("a"), LeafA(WORLD)>>],
                [k |-> "seq", s |-> <<LeafA("a"), LeafA("b")>>],
                [k |-> "cap", c |-> Mon(as, 10), s |-> [k |-> "seq", s |-> <<LeafA("a"), LeafA("b")>>]],
                \* a zero share listed first still receives the first left-over unit: its balance is needed
                [k |-> "allot", it |-> <<[p |-> [k |-> "portion", n |-> 0, d |-> 1], s |-> LeafA("a")], [p |-> [k |-> "portion", n |-> 1, d |-> 2], s |-> LeafA("b")],
                                         [p |-> [k |-> "remaining"], s |-> LeafA("b")]>>],
                \* an unbounded overdraft (its debit still moves the balance a later bounded source reads)
                [k |-> "ovdu", e |-> Acc("a")],
                \* an allotment whose first clause is unbounded: the clauses after it are still asked for their share
                [k |-> "allot", it |-> <<[p |-> [k |-> "portion", n |-> 1, d |-> 2], s |-> LeafA(WORLD)], [p |-> [k |-> "remaining"], s |-> LeafA("a")]>>],
                \* portions that add up to exactly one next to `remaining` (which then stands for nothing)
                [k |-> "allot", it |-> <<[p |-> [k |-> "portion", n |-> 1, d |-> 2], s |-> LeafA("a")], [p |-> [k |-> "portion", n |-> 1, d |-> 2], s |-> LeafA("b")],
                                         [p |-> [k |-> "remaining"], s |-> LeafA("b")]>>],
                \* a bounded overdraft that covers any amount of the family: the balance still decides (it may be negative)
                [k |-> "seq", s |-> <<LeafA("b"), [k |-> "ovd", e |-> Acc("a"), b |-> Mon(as, 60)]>>],
                [k |-> "ovd", e |-> Acc("a"), b |-> Mon(as, 15)] }
              \cup (IF Big THEN { [k |-> "seq", s |-> <<[k |-> "ovd", e |-> Acc("a"), b |-> Mon(as, 50)], LeafA("b")>>],
                                  [k |-> "seq", s |-> <<LeafA("b"), LeafA("a")>>] } ELSE {})
Amounts == IF Big THEN {5, 45, 60} ELSE {5, 60}
\* (the cap of a source is written in the statement's own asset)
Sends == {[k |-> "send", all |-> FALSE, sent |-> Mon(as, n), src |-> s, dst |-> LeafA("x")] : as \in {S}, n \in Amounts, s \in SrcFam(S)}
    \cup {[k |-> "send", all |-> FALSE, sent |-> Mon(as, n), src |-> s, dst |-> LeafA("x")] : as \in {O}, n \in {5}, s \in SrcFam(O)}
\* send-all: plain accounts, and an allotment below a cap (legal there)
SendAlls == {[k |-> "send", all |-> TRUE, sent |-> Ast(S), src |-> s, dst |-> LeafA("x")] :
               s \in { LeafA("a"), [k |-> "seq", s |-> <<LeafA("a"), LeafA("b")>>],
                       [k |-> "cap", c |-> Mon(S, 10), s |-> [k |-> "allot", it |-> <<[p |-> [k |-> "portion", n |-> 1, d |-> 2], s |-> LeafA("a")],
                                                                                [p |-> [k |-> "remaining"], s |-> LeafA("b")]>>]],
                       [k |-> "ovd", e |-> Acc("a"), b |-> Mon(S, 15)] }}
Saves == {[k |-> "save", all |-> FALSE, sent |-> Mon(as, 1), e |-> Acc("a")] : as \in {S, O}}
    \cup {[k |-> "save", all |-> TRUE, sent |-> Ast(as), e |-> Acc("a")] : as \in {S, O}}
Stmts == Sends \cup Saves \cup SendAlls
DeclFam == { <<>>,
             << [type |-> "monetary", name |-> "m", origin |-> Call("balance", <<Acc("a"), Ast(S)>>), val |-> [t |-> "none"]] >> }
           \cup (IF Big THEN { << [type |-> "monetary", name |-> "m", origin |-> Call("balance", <<Acc("a"), Ast(O)>>), val |-> [t |-> "none"]] >> } ELSE {})
Contents == { [a |-> [USD |-> 100], b |-> [USD |-> 100]],
              [a |-> [USD |-> 100, EUR |-> 7], b |-> [USD |-> 20]],
              [a |-> [USD |-> 50], b |-> [USD |-> 100, EUR |-> 3]],
              [a |-> [USD |-> -30], b |-> [USD |-> 5]],
              [a |-> [EUR |-> 7], b |-> [USD |-> 100]] }        \* no entry at all for (a, USD)
\* (thorough: all singles and pairs; triples whose outer statements are sends of the main asset, the first one of 60)
Sends60 == {x \in Sends : x.sent.asset.v = S /\ x.sent.amt.v = 60}
SendsS  == {x \in Sends : x.sent.asset.v = S /\ x.sent.amt.v # 5}
Seqs == IF Big THEN {<<s>> : s \in Stmts} \cup {<<s, t>> : s \in Stmts, t \in Stmts} \cup {<<s, t, u>> : s \in Sends60, t \in Stmts, u \in SendsS}
        ELSE {<<s>> : s \in Stmts} \cup {<<s, t>> : s \in Stmts, t \in Sends \cup SendAlls} \cup {<<s, v, t>> : s \in Sends, v \in Saves, t \in Sends}

VARIABLES phase, prog
vars == <<phase, prog>>
Init == phase = "pick" /\ prog = [vars |-> <<>>, stmts |-> <<>>, bal |-> <<>>]
Pick == /\ phase = "pick"
        /\ \E ds \in DeclFam : \E ss \in Seqs : \E c \in Contents : prog' = [vars |-> ds, stmts |-> ss, bal |-> c]
        /\ phase' = "done"
Spec == Init /\ [][Pick]_vars

EmitInv == phase = "done" =>
   PrintT("GEN " \o ToJson([vars |-> prog.vars, stmts |-> prog.stmts, bal |-> prog.bal, modes |-> <<>>, fault |-> 0, status |-> ""]))
=============================================================================
