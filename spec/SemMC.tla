------------------------------- MODULE SemMC -------------------------------
(***************************************************************************)
(* Design-level model checking of the reference semantics (Sem.tla):      *)
(* bounded exhaustive families of sources, destinations and short programs *)
(* on which the properties C01-C09 are checked AS THEOREMS ABOUT THE       *)
(* SEMANTICS (no implementation involved).  This is what makes Sem.tla a   *)
(* trustworthy oracle for trace validation: the lemmas below are stated    *)
(* independently of the recursive definitions they are about.              *)
(*                                                                         *)
(* One initial state per member of the family; the program is then         *)
(* executed statement by statement (one TLC step each).                    *)
(***************************************************************************)
EXTENDS Sem, Json

CONSTANTS Family,      \* "src" | "dst" | "prog"
          Scope,       \* "quick" | "thorough"
          Emit         \* TRUE: print every member of the family (program + balances) for replay into the real interpreter

\* pools (TLC configuration files cannot hold negative numbers, hence here)
Big == Scope = "thorough"
BalPool == CASE Family = "ill"  -> {0, 5}
             [] Family = "save" -> {-3, 0, 2, 5}
             [] Family = "src"  -> IF Big THEN {-3, 0, 1, 2, 5, 9} ELSE {-3, 0, 2, 5}
             [] Family = "dst"  -> {0, 5}
             [] Family = "prog" -> IF Big THEN {-3, 0, 2, 5, 9} ELSE {-3, 0, 2, 5}
AmtPool == CASE Family = "ill"  -> {0, 3}
             [] Family = "save" -> {0, 2, 3, 5, 6}
             [] Family = "src"  -> IF Big THEN {-1, 0, 1, 2, 3, 6, 8} ELSE {0, 1, 3, 6}
             [] Family = "dst"  -> IF Big THEN {0, 1, 2, 3, 5, 6, 7, 9} ELSE {0, 1, 3, 6, 7}
             [] Family = "prog" -> IF Big THEN {0, 2, 3, 6} ELSE {0, 3, 6}
CapPool == CASE Family \in {"src", "ill"}  -> {-1, 0, 2, 5}
             [] Family = "dst"  -> IF Big THEN {-1, 0, 1, 2, 5} ELSE {-1, 0, 2, 5}
             [] Family \in {"prog", "save"} -> {2}
OvdPool == CASE Family \in {"prog", "save"} -> {3} [] OTHER -> {0, 3}

A == "USD"
Mon(n)  == [k |-> "mon", asset |-> [k |-> "asset", v |-> A], amt |-> [k |-> "num", v |-> n]]
Acc(x)  == [k |-> "acct", v |-> x]
Por(n,d) == [k |-> "portion", n |-> n, d |-> d]
Rem == [k |-> "remaining"]
SrcAccts == {"a", "b"}

LeafFam == {[k |-> "acct", e |-> Acc(x)] : x \in SrcAccts \cup {WORLD}}
      \cup {[k |-> "ovd", e |-> Acc(x), b |-> Mon(o)] : x \in SrcAccts, o \in OvdPool}
      \cup {[k |-> "ovdu", e |-> Acc(x)] : x \in SrcAccts}
PortionSets == { <<Por(1,2), Por(1,2)>>, <<Por(1,3), Rem>>, <<Por(2,3), Por(1,3)>> }
SeqOf(X, Y) == {[k |-> "seq", s |-> <<x, y>>] : x \in X, y \in Y}
CapOf(X)    == {[k |-> "cap", c |-> Mon(c), s |-> x] : c \in CapPool, x \in X}
AllotOf(X, Y) == {[k |-> "allot", it |-> <<[p |-> ps[1], s |-> x], [p |-> ps[2], s |-> y]>>] : ps \in PortionSets, x \in X, y \in Y}
\* the same account reached three times in one statement, the first two pulls partial
Triples == {[k |-> "seq", s |-> <<[k |-> "cap", c |-> Mon(c1), s |-> [k |-> "acct", e |-> Acc("a")]], [k |-> "cap", c |-> Mon(c2), s |-> [k |-> "acct", e |-> Acc("a")]], x>>] :
               c1 \in {2}, c2 \in {2, 5}, x \in {[k |-> "acct", e |-> Acc("a")], [k |-> "ovd", e |-> Acc("a"), b |-> Mon(3)], [k |-> "seq", s |-> <<[k |-> "acct", e |-> Acc("a")], [k |-> "acct", e |-> Acc(WORLD)]>>]}}
\* a zero share listed first still receives the first left-over unit (its balance matters)
ZeroFirst == {[k |-> "allot", it |-> <<[p |-> Por(0, 1), s |-> x], [p |-> Por(1, 2), s |-> y], [p |-> Por(1, 2), s |-> [k |-> "acct", e |-> Acc(WORLD)]]>>] :
                 x \in LeafFam, y \in {[k |-> "acct", e |-> Acc("b")], [k |-> "acct", e |-> Acc(WORLD)]}}
SrcFam1 == LeafFam \cup SeqOf(LeafFam, LeafFam) \cup CapOf(LeafFam) \cup AllotOf(LeafFam, LeafFam)
             \cup {[k |-> "seq", s |-> <<>>]} \cup Triples \cup ZeroFirst
SrcFam2 == SrcFam1 \cup SeqOf(SrcFam1, LeafFam) \cup SeqOf(LeafFam, SrcFam1) \cup CapOf(SrcFam1)

\* ---- the "ill" family: every member of the source family with ONE of its expressions (an account, a cap, an overdraft
\*      bound) replaced by an expression of another type or by an undeclared variable
Bads == {[k |-> "num", v |-> 42], [k |-> "var", name |-> "nope"], [k |-> "str", v |-> "s"]}
RECURSIVE NExpr(_), ReplE(_,_,_), ReplList(_,_,_,_)
\* number of replaceable expressions of a source tree, in textual order
NExpr(s) == CASE s.k \in {"acct", "ovdu"} -> 1
              [] s.k = "ovd" -> 2
              [] s.k = "cap" -> 1 + NExpr(s.s)
              [] s.k = "seq" -> IF s.s = <<>> THEN 0 ELSE NExpr(Head(s.s)) + NExpr([s EXCEPT !.s = Tail(s.s)])
              [] s.k = "allot" -> IF s.it = <<>> THEN 0 ELSE NExpr(Head(s.it).s) + NExpr([s EXCEPT !.it = Tail(s.it)])
\* the tree with its p-th expression replaced
ReplList(xs, i, p, bad) == IF i > Len(xs) THEN xs
   ELSE LET n == NExpr(xs[i]) IN IF p <= n THEN [xs EXCEPT ![i] = ReplE(xs[i], p, bad)] ELSE ReplList(xs, i + 1, p - n, bad)
ReplE(s, p, bad) ==
  CASE s.k \in {"acct", "ovdu"} -> [s EXCEPT !.e = bad]
    [] s.k = "ovd" -> IF p = 1 THEN [s EXCEPT !.e = bad] ELSE [s EXCEPT !.b = bad]
    [] s.k = "cap" -> IF p = 1 THEN [s EXCEPT !.c = bad] ELSE [s EXCEPT !.s = ReplE(s.s, p - 1, bad)]
    [] s.k = "seq" -> [s EXCEPT !.s = ReplList(s.s, 1, p, bad)]
    [] s.k = "allot" -> LET subs == [i \in 1..Len(s.it) |-> s.it[i].s]
                            new == ReplList(subs, 1, p, bad) IN
                        [s EXCEPT !.it = [i \in 1..Len(s.it) |-> [s.it[i] EXCEPT !.s = new[i]]]]

DAcct == {[k |-> "acct", e |-> Acc(x)] : x \in {"x", "y"}}
Kod0  == DAcct \cup {[k |-> "kept"]}
Clause(K) == {[c |-> Mon(c), to |-> t] : c \in CapPool, t \in K}
OrdOf(K) == {[k |-> "ord", cl |-> <<>>, rem |-> r] : r \in K}
       \cup {[k |-> "ord", cl |-> <<c1>>, rem |-> r] : c1 \in Clause(K), r \in K}
       \cup {[k |-> "ord", cl |-> <<c1, c2>>, rem |-> r] : c1 \in Clause(K), c2 \in Clause(K), r \in K}
DAllotOf(K) == {[k |-> "allot", it |-> <<[p |-> ps[1], to |-> x], [p |-> ps[2], to |-> y]>>] : ps \in PortionSets, x \in K, y \in K}
DstFam1 == DAcct \cup OrdOf(Kod0) \cup DAllotOf(Kod0)
\* depth 2: an ordered destination whose first clause / remainder is itself structured
DstSmall == DAcct \cup {[k |-> "ord", cl |-> <<c1>>, rem |-> r] : c1 \in Clause(Kod0), r \in Kod0} \cup DAllotOf(DAcct)
DstFam2 == DstFam1 \cup {[k |-> "ord", cl |-> <<[c |-> Mon(c), to |-> d]>>, rem |-> r] : c \in CapPool, d \in DstSmall, r \in DstSmall}

PlainDst == [k |-> "acct", e |-> Acc("x")]
WorldSrc == [k |-> "acct", e |-> Acc(WORLD)]
SendFix(n, s, d) == [k |-> "send", all |-> FALSE, sent |-> Mon(n), src |-> s, dst |-> d]
SendAll(s, d)    == [k |-> "send", all |-> TRUE, sent |-> [k |-> "asset", v |-> A], src |-> s, dst |-> d]
Save(n, x)       == [k |-> "save", all |-> FALSE, sent |-> Mon(n), e |-> Acc(x)]
SaveAll(x)       == [k |-> "save", all |-> TRUE, sent |-> [k |-> "asset", v |-> A], e |-> Acc(x)]

Sends(S, D) == {SendFix(n, s, d) : n \in AmtPool, s \in S, d \in D} \cup {SendAll(s, d) : s \in S, d \in D}
SmallSrc == LeafFam \cup SeqOf({[k |-> "acct", e |-> Acc("a")]}, {[k |-> "acct", e |-> Acc("b")], [k |-> "acct", e |-> Acc("a")]})
SmallDst == {[k |-> "acct", e |-> Acc(x)] : x \in {"x", "a"}} \cup {[k |-> "ord", cl |-> <<[c |-> Mon(2), to |-> [k |-> "kept"]]>>, rem |-> [k |-> "acct", e |-> Acc("b")]]}
ProgStmts == Sends(SmallSrc, SmallDst) \cup {Save(n, x) : n \in AmtPool, x \in SrcAccts} \cup {SaveAll(x) : x \in SrcAccts}

SrcFamily == IF Big THEN SrcFam2 ELSE SrcFam1
DstFamily == IF Big THEN DstFam2 ELSE DstFam1

VARIABLES prog, bal0, S, si, last, seed
\* last: [pre (vis before), sp (SendParts), st] of the statement just executed
\* seed: the (amount, mode) chosen in the initial state; the trees are chosen by the Pick step
vars == <<prog, bal0, S, si, last, seed>>

BalOf(x, y) == (<<"a", A>> :> x) @@ (<<"b", A>> :> y)
NoLast == [pre |-> <<>>, sp |-> [err |-> "", d |-> NoSend], st |-> [k |-> "none"]]
Modes == {[all |-> FALSE, n |-> n] : n \in AmtPool} \cup {[all |-> TRUE, n |-> 0]}
Init == /\ prog = <<>>
        /\ bal0 \in {BalOf(x, y) : x \in BalPool, y \in BalPool}
        /\ seed \in Modes
        /\ S = [err |-> "", vis |-> bal0, post |-> <<>>, tx |-> <<>>, am |-> <<>>]
        /\ si = 0 /\ last = NoLast

Mk(s, d) == IF seed.all THEN SendAll(s, d) ELSE SendFix(seed.n, s, d)
Pick == /\ si = 0
        /\ CASE Family = "src"  -> \E s \in SrcFamily : prog' = << Mk(s, PlainDst) >>
             [] Family = "ill"  -> \E s \in SrcFam1 : \E p \in 1..NExpr(s) : \E bad \in Bads : prog' = << Mk(ReplE(s, p, bad), PlainDst) >>
             [] Family = "dst"  -> \E s \in {WorldSrc, [k |-> "acct", e |-> Acc("a")]}, d \in DstFamily : prog' = << Mk(s, d) >>
             [] Family = "prog" -> \E s1 \in ProgStmts, s \in SmallSrc, d \in SmallDst : prog' = << s1, Mk(s, d) >>
             \* a save (below, at and above the balance; save-all; on either account) and then a draw from a small source
             [] Family = "save" -> \E s1 \in {Save(n, x) : n \in AmtPool, x \in SrcAccts} \cup {SaveAll(x) : x \in SrcAccts}, s \in SmallSrc :
                                      prog' = << s1, Mk(s, PlainDst) >>
        /\ si' = 1 /\ UNCHANGED <<bal0, S, last, seed>>

Exec == /\ si >= 1 /\ si <= Len(prog) /\ S.err = ""
        /\ LET st == prog[si] IN
           /\ S' = Step(st, <<>>, S)
           /\ last' = [pre |-> S.vis, st |-> st,
                       sp |-> IF st.k = "send" THEN SendParts(st, <<>>, S.vis) ELSE [err |-> "", d |-> NoSend]]
        /\ si' = si + 1 /\ UNCHANGED <<prog, bal0, seed>>
Next == Pick \/ Exec
Spec == Init /\ [][Next]_vars

\* ------------------------------------------------------------------------
\* C02 (design level): every posting of the semantics is a real transfer
C02_Sem == \A i \in 1..Len(S.post) : S.post[i][3] > 0 /\ S.post[i][1] \notin {"", KEPT} /\ S.post[i][2] \notin {"", KEPT} /\ S.post[i][4] = A

\* C01 (design level): replaying the postings never takes an account below min(B0, -largest grant)
RECURSIVE Leaves(_)
Leaves(s) == CASE s.k \in {"acct","ovd","ovdu"} -> {s}
               [] s.k = "seq" -> UNION {Leaves(s.s[i]) : i \in 1..Len(s.s)}
               [] s.k = "cap" -> Leaves(s.s)
               [] s.k = "allot" -> UNION {Leaves(s.it[i].s) : i \in 1..Len(s.it)}
ProgLeaves == UNION ({Leaves(prog[i].src) : i \in {j \in 1..Len(prog) : prog[j].k = "send"}} \cup {{}})
ExemptMC == {WORLD} \cup {lf.e.v : lf \in {x \in ProgLeaves : x.k = "ovdu"}}
GrantMC(a) == LET bs == {0} \cup {lf.b.amt.v : lf \in {x \in ProgLeaves : x.k = "ovd" /\ x.e.v = a}} IN CHOOSE m \in bs : \A y \in bs : y <= m
RECURSIVE ReplayOkMC(_,_)
ReplayOkMC(vis, ps) ==
  IF ps = <<>> THEN TRUE
  ELSE LET p == Head(ps)  v2 == ApplyPost(vis, << p >>) IN
       /\ (p[1] \in ExemptMC \/ Get(v2, <<p[1], A>>) >= Min(Get(bal0, <<p[1], A>>), 0 - GrantMC(p[1])))
       /\ ReplayOkMC(v2, Tail(ps))
C01_Sem == S.err = "" => ReplayOkMC(bal0, S.post)

\* ------------------------------------------------------------------------
IsSendL == last.st.k = "send"
FixedL  == IsSendL /\ ~last.st.all
OkL     == IsSendL /\ last.sp.err = ""
NeedL   == last.st.sent.amt.v
DrawL(n) == Draw(last.st.src, <<>>, last.pre, A, n)
BIG == 100000
RECURSIVE HasAllot(_)
HasAllot(s) == CASE s.k = "allot" -> TRUE
                 [] s.k = "seq" -> \E i \in 1..Len(s.s) : HasAllot(s.s[i])
                 [] s.k = "cap" -> HasAllot(s.s)
                 [] OTHER -> FALSE
RECURSIVE DebitOf(_,_)
DebitOf(snd, a) == IF snd = <<>> THEN 0 ELSE (IF Head(snd)[1] = a THEN Head(snd)[2] ELSE 0) + DebitOf(Tail(snd), a)
NPosted == IF OkL THEN Len(Pair(last.sp.d.snd, last.sp.d.rcv, <<>>)) ELSE 0
NewPost == SubSeq(S.post, Len(S.post) - NPosted + 1, Len(S.post))

\* C03 (design level): exact amount or failure; it fails iff the amount exceeds what the sources can supply.
\* "What the sources can supply" is stated independently as the capacity Draw(BIG).sent, and the lemma
\* is that the draw is greedy up to that capacity for EVERY smaller request (sources without allotments).
C03_Sem ==
  /\ (FixedL /\ OkL) => SumAmt(NewPost) = NeedL - KeptOf(last.sp.d.rcv)
  /\ (FixedL /\ last.sp.err = E_MissingFunds) => S.err = E_MissingFunds
  /\ (FixedL /\ NeedL >= 0 /\ ~HasAllot(last.st.src)) =>
        LET cap == DrawL(BIG).sent IN
        /\ \A m \in 0..NeedL : DrawL(m).sent = Min(m, cap)
        /\ (last.sp.err = E_MissingFunds) <=> (NeedL > cap)
  /\ (FixedL /\ NeedL >= 0 /\ DrawL(NeedL).err = "") => DrawL(NeedL).sent <= NeedL

\* C04 (design level): the greedy draw on sequences of two distinct leaves, both modes
LeafAvail(lf, vis) == IF lf.e.v = WORLD \/ lf.k = "ovdu" THEN BIG
                      ELSE Max(0, Get(vis, <<lf.e.v, A>>) + (IF lf.k = "ovd" THEN lf.b.amt.v ELSE 0))
IsLeaf(s) == s.k \in {"acct","ovd","ovdu"}
TwoLeaves == IsSendL /\ last.st.src.k = "seq" /\ Len(last.st.src.s) = 2 /\ IsLeaf(last.st.src.s[1]) /\ IsLeaf(last.st.src.s[2])
                     /\ last.st.src.s[1].e.v # last.st.src.s[2].e.v
Unb(lf) == lf.e.v = WORLD \/ lf.k = "ovdu"
C04_Sem ==
  /\ OkL => /\ SumPairs(last.sp.d.snd) = last.sp.d.need
            /\ \A i \in 1..Len(last.sp.d.snd) : last.sp.d.snd[i][2] > 0
  /\ (TwoLeaves /\ FixedL /\ NeedL >= 0) =>
        LET l1 == last.st.src.s[1]  l2 == last.st.src.s[2]
            g1 == Min(NeedL, LeafAvail(l1, last.pre))
            g2 == Min(NeedL - g1, LeafAvail(l2, last.pre))
        IN IF g1 + g2 = NeedL
           THEN OkL /\ DebitOf(last.sp.d.snd, l1.e.v) = g1 /\ DebitOf(last.sp.d.snd, l2.e.v) = g2
           ELSE last.sp.err = E_MissingFunds
  /\ (TwoLeaves /\ last.st.all) =>
        LET l1 == last.st.src.s[1]  l2 == last.st.src.s[2] IN
        IF Unb(l1) \/ Unb(l2) THEN last.sp.err = E_UnbInSendAll
        ELSE OkL /\ DebitOf(last.sp.d.snd, l1.e.v) = LeafAvail(l1, last.pre) /\ DebitOf(last.sp.d.snd, l2.e.v) = LeafAvail(l2, last.pre)
  /\ (IsSendL /\ last.st.all /\ last.st.src.k = "allot") => last.sp.err = E_AllotInSendAll
  /\ (IsSendL /\ last.st.src.k = "cap" /\ IsLeaf(last.st.src.s) /\ FixedL /\ NeedL >= 0) =>
        LET g == Min(Max(0, Min(NeedL, last.st.src.c.amt.v)), LeafAvail(last.st.src.s, last.pre)) IN
        IF g = NeedL THEN OkL /\ DebitOf(last.sp.d.snd, last.st.src.s.e.v) = g ELSE last.sp.err = E_MissingFunds

\* C05 (design level): an ordered destination with plain targets, stated clause by clause
PlainKod(k) == k.k \in {"kept", "acct"}
KName(k) == IF k.k = "kept" THEN KEPT ELSE k.e.v
OrdPlain == OkL /\ last.st.dst.k = "ord" /\ PlainKod(last.st.dst.rem) /\ \A i \in 1..Len(last.st.dst.cl) : PlainKod(last.st.dst.cl[i].to)
RECURSIVE OrdShares(_,_,_)
OrdShares(cl, i, left) == IF i > Len(cl) THEN <<>>
   ELSE LET g == Min(Max(0, cl[i].c.amt.v), left) IN << <<KName(cl[i].to), g>> >> \o OrdShares(cl, i+1, left - g)
C05_Sem ==
  /\ OkL => SumPairs(last.sp.d.rcv) = last.sp.d.need
  /\ OkL => \A i \in 1..Len(last.sp.d.rcv) : last.sp.d.rcv[i][2] > 0
  /\ OrdPlain => LET sh == OrdShares(last.st.dst.cl, 1, last.sp.d.need)
                     rest == last.sp.d.need - SumPairs(sh)
                     all == sh \o << <<KName(last.st.dst.rem), rest>> >>
                 IN \A nm \in {all[i][1] : i \in 1..Len(all)} : DebitOf(last.sp.d.rcv, nm) = DebitOf(all, nm)
  /\ OkL => SumAmt(NewPost) + KeptOf(last.sp.d.rcv) = last.sp.d.need

\* C08 (design level): what was saved cannot be moved by a later statement without an overdraft grant
SaveFirst == Len(prog) = 2 /\ prog[1].k = "save" /\ prog[2].k = "send" /\ si = 3 /\ S.err = ""
PlainOn(x) == \A lf \in Leaves(prog[2].src) : lf.e.v = x => lf.k = "acct"
C08_Sem == SaveFirst /\ PlainOn(prog[1].e.v) =>
   LET x == prog[1].e.v  b == Get(bal0, <<x, A>>)
       visible == IF prog[1].all THEN Min(b, 0) ELSE (IF b <= 0 THEN b ELSE Max(0, b - prog[1].sent.amt.v))
   IN SumWhere(S.post, 1, x) <= Max(0, visible)
\* behaviour generation: every (program, balance sheet) of the family, one JSON line each
EmitInv == (Emit /\ si = 1 /\ prog # <<>>) =>
   PrintT("GEN " \o ToJson([stmts |-> prog, bal |-> [a |-> [USD |-> Get(bal0, <<"a", A>>)], b |-> [USD |-> Get(bal0, <<"b", A>>)]]]))
=============================================================================
