SPECIFICATION Spec
INVARIANTS C14_Lexed
POSTCONDITION Post
CHECK_DEADLOCK FALSE
