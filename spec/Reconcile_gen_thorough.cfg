SPECIFICATION Spec
CONSTANTS MaxLen = 3
 MaxAmt = 4
 Emit = TRUE
INVARIANTS EmitInv
CHECK_DEADLOCK FALSE
