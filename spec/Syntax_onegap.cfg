SPECIFICATION Spec
CONSTANTS Seeds = {1}
 OneGap = TRUE
 WithStatic = FALSE
INVARIANTS C15_TokensOrdered C15_Nesting EmitInv
CHECK_DEADLOCK FALSE
