SPECIFICATION Spec
CONSTANTS Seeds = {1}
 OneGap = TRUE
INVARIANTS C15_TokensOrdered C15_Nesting EmitInv
CHECK_DEADLOCK FALSE
