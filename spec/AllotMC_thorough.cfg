SPECIFICATION Spec
CONSTANTS MaxDen = 8
 MaxLen = 4
 MaxN = 60
INVARIANTS C06_Sem
CHECK_DEADLOCK FALSE
