SPECIFICATION Spec
CONSTANTS MaxDen = 8
 MaxLen = 4
 MaxN = 60
INVARIANTS C06_Sem C06_ScaleLemma
CHECK_DEADLOCK FALSE
