SPECIFICATION Spec
CONSTANTS Merge = "mergeworld"
 Faults = FALSE
 Emit = FALSE
 Scope = "quick"
INVARIANTS C10_StoreIndependent

CHECK_DEADLOCK FALSE
