------------------------------- MODULE Grammar -------------------------------
(***************************************************************************)
(* The token grammar of Numscript.g4 as a recognizer (C14): Accepts(toks)  *)
(* decides whether a sequence of lexemes is a program.  It is a set-based  *)
(* recursive-descent recognizer: P(rule, K, i) is the set of positions at  *)
(* which a phrase of `rule` starting at token i may end, so ambiguity and  *)
(* the left recursion of valueExpr (eliminated: atom (op atom)-star) need  *)
(* no special care.  Kind classifies a lexeme like the lexer does (rule    *)
(* order breaks ties: 1/3 is a portion, 123 a number, USD/2 an asset).     *)
(***************************************************************************)
EXTENDS Integers, Sequences, FiniteSets, TLC

Keywords == {"vars", "max", "source", "destination", "send", "from", "up", "to", "remaining", "allowing", "unbounded", "overdraft", "kept", "save"}
PunctK == {"(", ")", "[", "]", "{", "}", ",", "=", "*", "-", "+"}
LowerC == {"a","b","c","d","e","f","g","h","i","j","k","l","m","n","o","p","q","r","s","t","u","v","w","x","y","z"}
DigitC == {"0","1","2","3","4","5","6","7","8","9"}
AllIn(x, from, S) == \A i \in from..Len(x) : SubSeq(x, i, i) \in S
IsNumberLex(x) == Len(x) >= 1 /\ (IF SubSeq(x, 1, 1) = "-" THEN Len(x) >= 2 /\ AllIn(x, 2, DigitC) ELSE AllIn(x, 1, DigitC))
HasSlash(x) == \E i \in 1..Len(x) : SubSeq(x, i, i) = "/"
IsRatioLex(x) == HasSlash(x) /\ SubSeq(x, 1, 1) \in DigitC /\ AllIn(x, 1, DigitC \cup {"/", " "})
                 /\ Cardinality({i \in 1..Len(x) : SubSeq(x, i, i) = "/"}) = 1 /\ SubSeq(x, Len(x), Len(x)) \in DigitC
Kind(x) ==
  IF x \in Keywords \cup PunctK THEN x
  ELSE IF Len(x) = 0 THEN "?"
  ELSE LET c == SubSeq(x, 1, 1) IN
    CASE c = "$" -> "VAR" [] c = "@" -> "ACCOUNT" [] c = "\"" -> "STRING"
      [] SubSeq(x, Len(x), Len(x)) = "%" -> "PERCENT"
      [] c \in LowerC -> "IDENT"
      [] IsNumberLex(x) -> "NUMBER"
      [] IsRatioLex(x) -> "RATIO"
      [] OTHER -> "ASSET"
Kinds(toks) == [i \in 1..Len(toks) |-> Kind(toks[i])]

AtomKinds == {"VAR", "ASSET", "STRING", "ACCOUNT", "NUMBER", "RATIO", "PERCENT"}
Tk(K, S, t)   == {j + 1 : j \in {x \in S : x <= Len(K) /\ K[x] = t}}
TkIn(K, S, T) == {j + 1 : j \in {x \in S : x <= Len(K) /\ K[x] \in T}}
RECURSIVE P(_,_,_), Star(_,_,_)
Then(rule, K, S) == UNION {P(rule, K, j) : j \in S}
Star(rule, K, S) == LET n == Then(rule, K, S) IN IF n \subseteq S THEN S ELSE Star(rule, K, S \cup n)
Seq4(K, i, a, b, c, d) == Tk(K, Tk(K, Tk(K, Tk(K, {i}, a), b), c), d)
P(rule, K, i) ==
  CASE rule = "atom"   -> TkIn(K, {i}, AtomKinds) \cup Tk(K, Then("value", K, Then("value", K, Tk(K, {i}, "["))), "]")
    [] rule = "opatom" -> Then("atom", K, TkIn(K, {i}, {"+", "-"}))
    [] rule = "value"  -> Star("opatom", K, P("atom", K, i))
    [] rule = "commaval" -> Then("value", K, Tk(K, {i}, ","))
    [] rule = "call"   -> LET open == Tk(K, TkIn(K, {i}, {"overdraft", "IDENT"}), "(") IN
                          Tk(K, open \cup Star("commaval", K, Then("value", K, open)), ")")
    [] rule = "decl"   -> LET nm == Tk(K, Tk(K, {i}, "IDENT"), "VAR") IN nm \cup Then("call", K, Tk(K, nm, "="))
    [] rule = "varsdecl" -> Tk(K, Star("decl", K, Tk(K, Tk(K, {i}, "vars"), "{")), "}")
    [] rule = "sentall" -> Tk(K, Tk(K, Then("value", K, Tk(K, {i}, "[")), "*"), "]")
    [] rule = "sent"   -> P("value", K, i) \cup P("sentall", K, i)
    [] rule = "allotment" -> TkIn(K, {i}, {"RATIO", "PERCENT", "VAR", "remaining"})
    [] rule = "allotsrc" -> Then("source", K, Tk(K, P("allotment", K, i), "from"))
    [] rule = "source" ->
         LET v == P("value", K, i)
             al == Tk(K, v, "allowing") IN
         v \cup Tk(K, Tk(K, al, "unbounded"), "overdraft")
           \cup Then("value", K, Tk(K, Tk(K, Tk(K, al, "overdraft"), "up"), "to"))
           \cup Tk(K, Star("allotsrc", K, Then("allotsrc", K, Tk(K, {i}, "{"))), "}")
           \cup Tk(K, Star("source", K, Tk(K, {i}, "{")), "}")
           \cup Then("source", K, Tk(K, Then("value", K, Tk(K, {i}, "max")), "from"))
    [] rule = "kod"    -> Tk(K, {i}, "kept") \cup Then("dest", K, Tk(K, {i}, "to"))
    [] rule = "clause" -> Then("kod", K, Then("value", K, Tk(K, {i}, "max")))
    [] rule = "allotdst" -> Then("kod", K, P("allotment", K, i))
    [] rule = "dest"   ->
         P("value", K, i)
           \cup Tk(K, Star("allotdst", K, Then("allotdst", K, Tk(K, {i}, "{"))), "}")
           \cup Tk(K, Then("kod", K, Tk(K, Star("clause", K, Tk(K, {i}, "{")), "remaining")), "}")
    [] rule = "statement" ->
         Tk(K, Then("dest", K, Tk(K, Tk(K, Then("source", K, Tk(K, Tk(K, Tk(K, Then("sent", K, Tk(K, {i}, "send")), "("), "source"), "=")), "destination"), "=")), ")")
           \cup Then("value", K, Tk(K, Then("sent", K, Tk(K, {i}, "save")), "from"))
           \cup P("call", K, i)
    [] OTHER -> {}
AcceptsKinds(K) == (Len(K) + 1) \in Star("statement", K, {1} \cup P("varsdecl", K, 1))
Accepts(toks) == AcceptsKinds(Kinds(toks))
=============================================================================
