SPECIFICATION Spec
CONSTANTS Scope = "thorough"
INVARIANTS Emit
CHECK_DEADLOCK FALSE
