--------------------------------- MODULE Lsp ---------------------------------
(***************************************************************************)
(* The language server as a state machine (C19): the abstract state is     *)
(* docs : URI -> latest text (0 = never opened).  didOpen sets it, a       *)
(* didChange with several content changes sets it to the LAST one (full    *)
(* document sync), and every hover / definition / documentSymbol reply and *)
(* every published diagnostic set is a function of docs[u] alone - never   *)
(* of an earlier version or of another document.                           *)
(* TLC enumerates every well-formed history up to MaxLen over a small      *)
(* alphabet (BFS; the history is part of the state) and prints it with,    *)
(* for each step, the text the reply must be computed from; the harness    *)
(* feeds the history to ONE long-lived real server and compares each reply *)
(* with a FRESH real server that was only given that text.                 *)
(***************************************************************************)
EXTENDS Integers, Sequences, FiniteSets, TLC, Json
CONSTANTS NUris, NTexts, NProbes, MaxLen, MultiChange,
          TailMode      \* TRUE: notifications only, then one query as the last step (long open / change / re-open histories of one document)

Uris == 1..NUris
Texts == 1..NTexts
VARIABLES docs, hist,
          ver       \* the CLIENT's version counter of each document: 1 at every (re-)open, + 1 with every change notification.
                    \* The server synchronises full texts, so the number must not influence anything: a re-opened document
                    \* starts again at 1, below what the server has seen before.
vars == <<docs, hist, ver>>
Init == docs = [u \in Uris |-> 0] /\ hist = <<>> /\ ver = [u \in Uris |-> 0]

Step(op) == hist' = Append(hist, op)
DidOpen(u, t) == /\ docs' = [docs EXCEPT ![u] = t] /\ ver' = [ver EXCEPT ![u] = 1]
                 /\ Step([op |-> "open", u |-> u, ts |-> <<t>>, p |-> 0, latest |-> t, v |-> 1])
\* well-formed: a change follows an open of that document
DidChange(u, ts) == /\ docs[u] # 0
                    /\ docs' = [docs EXCEPT ![u] = ts[Len(ts)]] /\ ver' = [ver EXCEPT ![u] = @ + 1]
                    /\ Step([op |-> "change", u |-> u, ts |-> ts, p |-> 0, latest |-> ts[Len(ts)], v |-> ver[u] + 1])
Query(kind, u, p) == /\ UNCHANGED <<docs, ver>>
                     /\ Step([op |-> kind, u |-> u, ts |-> <<>>, p |-> p, latest |-> docs[u], v |-> 0])
NotifOk == ~TailMode \/ Len(hist) < MaxLen - 1
QueryOk == ~TailMode \/ Len(hist) = MaxLen - 1
Next == /\ Len(hist) < MaxLen
        /\ \/ NotifOk /\ \E u \in Uris, t \in Texts : DidOpen(u, t)
           \/ NotifOk /\ \E u \in Uris, t \in Texts : DidChange(u, <<t>>)
           \/ (NotifOk /\ MultiChange /\ \E u \in Uris, t1 \in Texts, t2 \in Texts : t1 # t2 /\ DidChange(u, <<t1, t2>>))
           \/ QueryOk /\ \E u \in Uris, p \in 1..NProbes : Query("hover", u, p) \/ Query("definition", u, p)
           \/ QueryOk /\ \E u \in Uris : Query("symbols", u, 0)
           \/ (QueryOk /\ ~TailMode /\ \E u \in Uris, p \in 1..2 : Query("other", u, p))      \* initialize / a method the server does not implement: no effect on any document
Spec == Init /\ [][Next]_vars

\* design level: what a query is answered from is the last text set on THAT document
RECURSIVE LastSet(_,_,_)
LastSet(h, i, u) == IF i = 0 THEN 0 ELSE IF h[i].op \in {"open", "change"} /\ h[i].u = u THEN h[i].latest ELSE LastSet(h, i - 1, u)
C19_LatestOfRightDoc == \A i \in 1..Len(hist) : hist[i].latest = LastSet(hist, IF hist[i].op \in {"open", "change"} THEN i ELSE i - 1, hist[i].u)
C19_DocsIsLast == \A u \in Uris : docs[u] = LastSet(hist, Len(hist), u)
\* the version discipline of the client: within one open period the numbers only grow; a re-open restarts them
C19_VersionsRestart == \A i \in 1..Len(hist) : hist[i].op = "open" => hist[i].v = 1
EmitInv == Len(hist) = MaxLen => PrintT("GEN " \o ToJson(hist))
=============================================================================
