------------------------------- MODULE LexFam -------------------------------
(***************************************************************************)
(* Every text made of up to N pieces of a small alphabet of characters and *)
(* character groups (letters, keywords, digits, every punctuation mark,    *)
(* quotes, backslash, comment openers and closers, white space, characters *)
(* no rule starts with), with what Lexer!Lex says about it: the token      *)
(* list, the error texts, and whether Grammar!Accepts the token kinds.     *)
(* One line per text is printed for the harness, which runs the real lexer *)
(* and the real parser on it.                                              *)
(***************************************************************************)
EXTENDS Lexer, Grammar, Json

CONSTANTS N
Pieces == <<"a", "max", "_", "1", "23", "/", "*", "-", "+", " ", "\n", "%", ".", "$", "@", ":", "\"", "\\", "A", "USD", "(", "//", "/*", "*/", "^", "=", "x y", "\r">>
VARIABLES phase, text
vars == <<phase, text>>
RECURSIVE Cat(_)
Cat(ps) == IF ps = <<>> THEN "" ELSE Pieces[Head(ps)] \o Cat(Tail(ps))
Init == phase = "pick" /\ text = ""
Pick == /\ phase = "pick"
        /\ \E n \in 1..N : \E ps \in [1..n -> 1..Len(Pieces)] : text' = Cat(ps)
        /\ phase' = "done"
Spec == Init /\ [][Pick]_vars
Toks2(ts) == [j \in 1..Len(ts) |-> <<ts[j].k, ts[j].t>>]
Emit == phase = "done" =>
  LET r == Lex(text) IN
  PrintT("GEN " \o ToJson([text |-> text, toks |-> Toks2(r.toks), errs |-> r.errs,
                           accepts |-> (r.errs = <<>> /\ AcceptsKinds(KindsOf(r.toks))), unspec |-> Unspecified(text)]))
=============================================================================
