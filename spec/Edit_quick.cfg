SPECIFICATION Spec
CONSTANTS Depth = 1
 Seps = {4, 7}
 Rich = FALSE
INVARIANTS EmitInv
CHECK_DEADLOCK FALSE
