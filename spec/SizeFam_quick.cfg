SPECIFICATION Spec
CONSTANTS Thresholds = {10, 16, 20, 32, 50, 64, 100, 128, 200, 256}
 Offsets = {-4, -3, -2, -1, 0, 1}
 Unused = {0, 3, 8}
 Kinds = {"unbound", "mismatch"}
INVARIANTS SizeOk EmitInv
CHECK_DEADLOCK FALSE
