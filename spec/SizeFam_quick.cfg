SPECIFICATION Spec
CONSTANTS Thresholds = {10, 16, 20, 32, 50, 64, 100, 128, 200, 256}
 Offsets = {0, 1, 2, 3, 4, 5}
 Shift = 4
 Unused = {0, 3, 8}
 Kinds = {"unbound", "mismatch"}
INVARIANTS SizeOk EmitInv
CHECK_DEADLOCK FALSE
