SPECIFICATION Spec
CONSTANTS Merge = "alias"
 Procs = {1, 2}
 NStmts = 2
 Amt = 2
 A0 = 20
 Emit = FALSE
INVARIANTS InputsUntouched
CHECK_DEADLOCK FALSE
