------------------------------ MODULE ShapeFam ------------------------------
(***************************************************************************)
(* Exhaustive small families of abstract programs for the static checker   *)
(* (C16, C17), printed as trees for the printing machine (Syntax.tla),     *)
(* which adds the text, the verdict Static!Valid and the expected name     *)
(* diagnostics:                                                            *)
(*   shapes  every source tree of depth <= 2 over bounded / unbounded /    *)
(*           world leaves, optionally under one more cap, in a fixed-amount *)
(*           send and in a send-all: the whole case analysis of "an         *)
(*           unbounded source / an allotment is only allowed in a send-all  *)
(*           under a cap";                                                  *)
(*   names   every subset and order of two declarations against every      *)
(*           small expression over the two names (alone, both operands of  *)
(*           an infix, the same name twice, nested): the whole case         *)
(*           analysis of unbound / unused per token.                       *)
(***************************************************************************)
EXTENDS Integers, Sequences, FiniteSets, TLC, Json

CONSTANTS Scope      \* "quick" | "thorough"
Big == Scope = "thorough"

A == "USD"
Num(n)  == [k |-> "num", v |-> n]
Mon(n)  == [k |-> "mon", asset |-> [k |-> "asset", v |-> A], amt |-> Num(n)]
Acc(x)  == [k |-> "acct", v |-> x]
Var(x)  == [k |-> "var", name |-> x]
Inf(op, l, r) == [k |-> "infix", op |-> op, l |-> l, r |-> r]
P(n, d) == [k |-> "portion", n |-> n, d |-> d]
Rem     == [k |-> "remaining"]

Leaves == { [k |-> "acct", e |-> Acc("a")], [k |-> "acct", e |-> Acc("world")],
            [k |-> "ovdu", e |-> Acc("b")], [k |-> "ovd", e |-> Acc("b"), b |-> Mon(5)] }
Seq2(x, y)   == [k |-> "seq", s |-> <<x, y>>]
Cap(x)       == [k |-> "cap", c |-> Mon(10), s |-> x]
Allot2(x, y) == [k |-> "allot", it |-> <<[p |-> P(1, 2), s |-> x], [p |-> Rem, s |-> y]>>]
D1 == Leaves \cup {Seq2(x, y) : x \in Leaves, y \in Leaves} \cup {Cap(x) : x \in Leaves} \cup {Allot2(x, y) : x \in Leaves, y \in Leaves}
\* depth two: in the quick scope one child of a pair is a leaf
Pairs == IF Big THEN D1 \X D1 ELSE {pr \in D1 \X D1 : pr[1] \in Leaves \/ pr[2] \in Leaves}
D2 == D1 \cup {Seq2(pr[1], pr[2]) : pr \in Pairs} \cup {Cap(x) : x \in D1} \cup {Allot2(pr[1], pr[2]) : pr \in Pairs}
Srcs == D2 \cup {Cap(x) : x \in D2}
Dst == [k |-> "acct", e |-> Acc("x")]
ShapeProgs == {[vars |-> <<>>, stmts |-> <<[k |-> "send", all |-> al, sent |-> IF al THEN [k |-> "asset", v |-> A] ELSE Mon(20), src |-> s, dst |-> Dst]>>] :
                  al \in BOOLEAN, s \in Srcs}

\* ---- names
D(t, n) == [type |-> t, name |-> n, origin |-> [k |-> "none"]]
DeclSeqs(t) == {<<>>, <<D(t, "f")>>, <<D(t, "t")>>, <<D(t, "f"), D(t, "t")>>, <<D(t, "t"), D(t, "f")>>, <<D(t, "f"), D(t, "f")>>}
Exprs(lit) == LET f == Var("f")  t == Var("t") IN
   { f, t, Inf("+", f, t), Inf("-", t, f), Inf("-", f, f), Inf("+", f, lit), Inf("+", lit, t), Inf("-", Inf("+", f, t), f), Inf("+", Inf("-", lit, t), Inf("+", t, f)) }
NameProgs ==
   {[vars |-> ds, stmts |-> <<[k |-> "send", all |-> FALSE, sent |-> Mon(20), src |-> [k |-> "cap", c |-> e, s |-> [k |-> "acct", e |-> Acc("a")]], dst |-> Dst]>>] :
        ds \in DeclSeqs("monetary"), e \in Exprs(Mon(1))}
   \cup {[vars |-> ds, stmts |-> <<[k |-> "send", all |-> FALSE, sent |-> [k |-> "mon", asset |-> [k |-> "asset", v |-> A], amt |-> e], src |-> [k |-> "acct", e |-> Acc("a")], dst |-> Dst]>>] :
        ds \in DeclSeqs("number"), e \in Exprs(Num(1))}
   \cup {[vars |-> ds, stmts |-> <<[k |-> "send", all |-> TRUE, sent |-> [k |-> "asset", v |-> A],
                                    src |-> [k |-> "ovd", e |-> Acc("a"), b |-> e], dst |-> Dst]>>] :
        ds \in DeclSeqs("monetary"), e \in Exprs(Mon(1))}

Progs == ShapeProgs \cup NameProgs
VARIABLES phase, prog
vars == <<phase, prog>>
Init == phase = "pick" /\ prog = [vars |-> <<>>, stmts |-> <<>>]
Pick == phase = "pick" /\ (\E p \in Progs : prog' = p) /\ phase' = "done"
Spec == Init /\ [][Pick]_vars
Emit == phase = "done" =>
  PrintT("GEN " \o ToJson([vars |-> prog.vars, stmts |-> prog.stmts, emptyvars |-> FALSE, edits |-> 0, flagovd |-> FALSE]))
=============================================================================
