------------------------------ MODULE ShapeFam ------------------------------
(***************************************************************************)
(* Exhaustive small families of abstract programs for the static checker   *)
(* (C16, C17), printed as trees for the printing machine (Syntax.tla),     *)
(* which adds the text, the verdict Static!Valid and the expected name     *)
(* diagnostics:                                                            *)
(*   shapes  every source tree of depth <= 2 over bounded / unbounded /    *)
(*           world leaves, optionally under one more cap, in a fixed-amount *)
(*           send and in a send-all: the whole case analysis of "an         *)
(*           unbounded source / an allotment is only allowed in a send-all  *)
(*           under a cap";                                                  *)
(*   names   every subset and order of two declarations against every      *)
(*           small expression over the two names (alone, both operands of  *)
(*           an infix, the same name twice, nested): the whole case         *)
(*           analysis of unbound / unused per token.                       *)
(***************************************************************************)
EXTENDS Integers, Sequences, FiniteSets, TLC, Json

CONSTANTS Scope      \* "quick" | "thorough"
Big == Scope = "thorough"

A == "USD"
Num(n)  == [k |-> "num", v |-> n]
Mon(n)  == [k |-> "mon", asset |-> [k |-> "asset", v |-> A], amt |-> Num(n)]
Acc(x)  == [k |-> "acct", v |-> x]
Var(x)  == [k |-> "var", name |-> x]
Inf(op, l, r) == [k |-> "infix", op |-> op, l |-> l, r |-> r]
P(n, d) == [k |-> "portion", n |-> n, d |-> d]
Rem     == [k |-> "remaining"]
Str_(x) == [k |-> "str", v |-> x]

Leaves == { [k |-> "acct", e |-> Acc("a")], [k |-> "acct", e |-> Acc("world")],
            [k |-> "ovdu", e |-> Acc("b")], [k |-> "ovd", e |-> Acc("b"), b |-> Mon(5)],
            [k |-> "ovd", e |-> Acc("world"), b |-> Mon(5)] }       \* a bound written next to @world: still unbounded
Seq2(x, y)   == [k |-> "seq", s |-> <<x, y>>]
Cap(x)       == [k |-> "cap", c |-> Mon(10), s |-> x]
Allot2(x, y) == [k |-> "allot", it |-> <<[p |-> P(1, 2), s |-> x], [p |-> Rem, s |-> y]>>]
D1 == Leaves \cup {Seq2(x, y) : x \in Leaves, y \in Leaves} \cup {Cap(x) : x \in Leaves} \cup {Allot2(x, y) : x \in Leaves, y \in Leaves}
\* depth two: in the quick scope one child of a pair is a leaf
Pairs == IF Big THEN D1 \X D1 ELSE {pr \in D1 \X D1 : pr[1] \in Leaves \/ pr[2] \in Leaves}
D2 == D1 \cup {Seq2(pr[1], pr[2]) : pr \in Pairs} \cup {Cap(x) : x \in D1} \cup {Allot2(pr[1], pr[2]) : pr \in Pairs}
\* a cap around a structured source next to a leaf, in both orders (what a scope left behind matters to its siblings)
D3 == {Seq2(Cap(x), y) : x \in D1 \ Leaves, y \in Leaves} \cup {Seq2(y, Cap(x)) : x \in D1 \ Leaves, y \in Leaves}
Srcs == D2 \cup {Cap(x) : x \in D2} \cup D3
Dst == [k |-> "acct", e |-> Acc("x")]
ShapeProgs == {[vars |-> <<>>, stmts |-> <<[k |-> "send", all |-> al, sent |-> IF al THEN [k |-> "asset", v |-> A] ELSE Mon(20), src |-> s, dst |-> Dst]>>] :
                  al \in BOOLEAN, s \in Srcs}

\* ---- names
D(t, n) == [type |-> t, name |-> n, origin |-> [k |-> "none"]]
DeclSeqs(t) == {<<>>, <<D(t, "f")>>, <<D(t, "t")>>, <<D(t, "f"), D(t, "t")>>, <<D(t, "t"), D(t, "f")>>, <<D(t, "f"), D(t, "f")>>}
Exprs(lit) == LET f == Var("f")  t == Var("t") IN
   { f, t, Inf("+", f, t), Inf("-", t, f), Inf("-", f, f), Inf("+", f, lit), Inf("+", lit, t), Inf("-", Inf("+", f, t), f), Inf("+", Inf("-", lit, t), Inf("+", t, f)) }
NameProgs ==
   {[vars |-> ds, stmts |-> <<[k |-> "send", all |-> FALSE, sent |-> Mon(20), src |-> [k |-> "cap", c |-> e, s |-> [k |-> "acct", e |-> Acc("a")]], dst |-> Dst]>>] :
        ds \in DeclSeqs("monetary"), e \in Exprs(Mon(1))}
   \cup {[vars |-> ds, stmts |-> <<[k |-> "send", all |-> FALSE, sent |-> [k |-> "mon", asset |-> [k |-> "asset", v |-> A], amt |-> e], src |-> [k |-> "acct", e |-> Acc("a")], dst |-> Dst]>>] :
        ds \in DeclSeqs("number"), e \in Exprs(Num(1))}
   \cup {[vars |-> ds, stmts |-> <<[k |-> "send", all |-> TRUE, sent |-> [k |-> "asset", v |-> A],
                                    src |-> [k |-> "ovd", e |-> Acc("a"), b |-> e], dst |-> Dst]>>] :
        ds \in DeclSeqs("monetary"), e \in Exprs(Mon(1))}

\* ---- a declared variable in every syntactic position that can hold one (navigation, C19)
AllDecls == <<D("account", "acc"), D("asset", "as"), D("number", "n"), D("monetary", "m"), D("portion", "p"), D("string", "s")>>
AstE(x) == [k |-> "asset", v |-> x]
LeafV == [k |-> "acct", e |-> Var("acc")]
LeafL(x) == [k |-> "acct", e |-> Acc(x)]
Send(al, sent, src, dst) == [k |-> "send", all |-> al, sent |-> sent, src |-> src, dst |-> dst]
PosStmts ==
  { Send(FALSE, Var("m"), LeafL("a"), Dst),
    Send(FALSE, [k |-> "mon", asset |-> Var("as"), amt |-> Var("n")], LeafV, [k |-> "acct", e |-> Var("acc")]),
    Send(TRUE, Var("as"), LeafV, Dst),
    Send(FALSE, Mon(20), [k |-> "ovdu", e |-> Var("acc")], Dst),
    Send(FALSE, Mon(20), [k |-> "ovd", e |-> Var("acc"), b |-> Var("m")], Dst),
    Send(TRUE, AstE(A), [k |-> "ovd", e |-> Var("acc"), b |-> Var("m")], Dst),
    Send(TRUE, AstE(A), [k |-> "seq", s |-> <<LeafL("a"), [k |-> "ovd", e |-> LeafL("b").e, b |-> Inf("+", Var("m"), Mon(1))]>>], Dst),
    Send(FALSE, Mon(20), [k |-> "cap", c |-> Var("m"), s |-> LeafV], Dst),
    Send(TRUE, AstE(A), [k |-> "cap", c |-> Var("m"), s |-> [k |-> "seq", s |-> <<[k |-> "cap", c |-> Var("m"), s |-> LeafV], [k |-> "ovdu", e |-> Var("acc")]>>]], Dst),
    Send(FALSE, Mon(20), [k |-> "allot", it |-> <<[p |-> Var("p"), s |-> LeafV], [p |-> Rem, s |-> LeafL("b")]>>], Dst),
    Send(FALSE, Mon(20), LeafL("a"), [k |-> "allot", it |-> <<[p |-> Var("p"), to |-> [k |-> "acct", e |-> Var("acc")]], [p |-> Rem, to |-> [k |-> "kept"]]>>]),
    Send(FALSE, Mon(20), LeafL("a"), [k |-> "ord", cl |-> <<[c |-> Var("m"), to |-> [k |-> "acct", e |-> Var("acc")]], [c |-> Inf("-", Var("m"), Var("m")), to |-> [k |-> "kept"]]>>,
                                                 rem |-> [k |-> "acct", e |-> Var("acc")]]),
    [k |-> "save", all |-> FALSE, sent |-> Var("m"), e |-> Var("acc")],
    [k |-> "save", all |-> TRUE, sent |-> Var("as"), e |-> Var("acc")],
    [k |-> "call", name |-> "set_tx_meta", args |-> <<Var("s"), Var("m")>>],
    [k |-> "call", name |-> "set_account_meta", args |-> <<Var("acc"), Var("s"), Var("p")>>] }
OriginDecls == AllDecls \o << [type |-> "monetary", name |-> "bal", origin |-> [k |-> "call", name |-> "balance", args |-> <<Var("acc"), Var("as")>>]],
                              [type |-> "string", name |-> "k", origin |-> [k |-> "call", name |-> "meta", args |-> <<Var("acc"), Var("s")>>]],
                              [type |-> "monetary", name |-> "od", origin |-> [k |-> "call", name |-> "overdraft", args |-> <<Var("acc"), Var("as")>>]] >>
PosProgs == {[vars |-> AllDecls, stmts |-> <<st>>] : st \in PosStmts}
       \cup {[vars |-> OriginDecls, stmts |-> <<Send(FALSE, Var("bal"), LeafL("a"), Dst), [k |-> "call", name |-> "set_tx_meta", args |-> <<Var("k"), Var("od")>>]>>]}
       \cup {[vars |-> <<>>, stmts |-> <<st>>] : st \in PosStmts}        \* the same with nothing declared: every use is unbound

\* ---- declaration order: an origin that uses a variable declared after it (unbound there), and the right order
BalDecl == [type |-> "monetary", name |-> "bal", origin |-> [k |-> "call", name |-> "balance", args |-> <<Var("acc"), AstE(A)>>]]
KeyDecl == [type |-> "string", name |-> "k", origin |-> [k |-> "call", name |-> "meta", args |-> <<Var("acc"), Str_("key")>>]]
SelfDecl == [type |-> "account", name |-> "acc", origin |-> [k |-> "call", name |-> "meta", args |-> <<Var("acc"), Str_("key")>>]]
OrderStmt == Send(FALSE, Var("bal"), LeafV, Dst)
OrderProgs == {[vars |-> ds, stmts |-> <<OrderStmt>>] : ds \in {<<BalDecl, D("account", "acc")>>, <<D("account", "acc"), BalDecl>>,
                                                                 <<KeyDecl, BalDecl, D("account", "acc")>>, <<BalDecl, D("account", "acc"), KeyDecl>>}}
         \* an origin that uses the very variable it defines
         \cup {[vars |-> <<SelfDecl>>, stmts |-> <<Send(FALSE, Mon(20), LeafV, Dst)>>],
               [vars |-> <<D("account", "acc"), SelfDecl>>, stmts |-> <<Send(FALSE, Mon(20), LeafV, Dst)>>]}

\* ---- every allotment of up to three clauses over {1/2, 2/3, remaining, $p}, on either side (sums below, at and above
\*      one, `remaining` anywhere and repeated, the same variable twice)
ClauseP == {P(1, 2), P(2, 3), Rem, Var("p"), [k |-> "portion", n |-> 1, d |-> 2, lex |-> "50.0%"]}     \* (a half, also as a percentage with a zero decimal)
AllotSeqs == UNION {[1..n -> ClauseP] : n \in 1..3}
SrcOfIdx(i) == LeafL(IF i = 1 THEN "a" ELSE IF i = 2 THEN "b" ELSE "c")
AllotProgs == {[vars |-> <<D("portion", "p")>>,
                stmts |-> <<Send(FALSE, Mon(20), [k |-> "allot", it |-> [i \in 1..Len(ps) |-> [p |-> ps[i], s |-> SrcOfIdx(i)]]], Dst)>>] : ps \in AllotSeqs}
         \cup {[vars |-> <<D("portion", "p")>>,
                stmts |-> <<Send(FALSE, Mon(20), LeafL("a"), [k |-> "allot", it |-> [i \in 1..Len(ps) |-> [p |-> ps[i], to |-> SrcOfIdx(i)]]])>>] : ps \in AllotSeqs}

\* ---- a function that only exists as an origin, called as a statement (alone, and next to a proper use of the same name)
MisplacedProgs ==
  {[vars |-> ds, stmts |-> <<[k |-> "call", name |-> fn, args |-> args], Send(FALSE, Mon(20), LeafL("a"), Dst)>>] :
      ds \in {<<>>, <<D("account", "acc"), BalDecl>>, <<D("account", "acc"), KeyDecl>>},
      fn \in {"balance", "meta"}, args \in {<<Acc("a"), AstE(A)>>, <<Acc("a"), Str_("key")>>}}

\* ---- two allotments in one statement (whatever the first one leaves behind must not reach the second), and a script
\*      with more diagnostics than any budget (eighteen unused variables, once with twelve undeclared uses on top)
Allot2Seqs == [1..2 -> ClauseP]
TwoAllotProgs == {[vars |-> <<D("portion", "p")>>,
                   stmts |-> <<Send(FALSE, Mon(20), [k |-> "allot", it |-> [i \in 1..2 |-> [p |-> ps[i], s |-> SrcOfIdx(i)]]],
                                                   [k |-> "allot", it |-> [i \in 1..2 |-> [p |-> qs[i], to |-> SrcOfIdx(i)]]])>>] : ps \in Allot2Seqs, qs \in Allot2Seqs}
Names18 == <<"va", "vb", "vc", "vd", "ve", "vf", "vg", "vh", "vi", "vj", "vk", "vl", "vm", "vn", "vo", "vp", "vq", "vr">>
ManyDiagProgs == {[vars |-> [i \in 1..18 |-> D("number", Names18[i])], stmts |-> <<Send(FALSE, Mon(20), LeafL("a"), Dst)>>],
                  [vars |-> [i \in 1..18 |-> D("number", Names18[i])],
                   stmts |-> <<[k |-> "call", name |-> "set_tx_meta", args |-> <<Str_("k"), Inf("+", Inf("+", Inf("+", Var("xa"), Var("xb")), Inf("+", Var("xc"), Var("xd"))), Inf("+", Inf("+", Var("xe"), Var("xf")), Inf("+", Var("xg"), Var("xh"))))>>],
                               [k |-> "call", name |-> "set_tx_meta", args |-> <<Str_("k"), Inf("+", Inf("+", Var("xi"), Var("xj")), Inf("+", Var("xk"), Var("xl")))>>]>>]}

Progs == IF Scope = "analysis" THEN NameProgs \cup PosProgs \cup OrderProgs \cup AllotProgs \cup MisplacedProgs \cup TwoAllotProgs \cup ManyDiagProgs
         ELSE IF Scope = "names" THEN NameProgs \cup PosProgs \cup OrderProgs \cup AllotProgs \cup MisplacedProgs ELSE ShapeProgs \cup NameProgs \cup PosProgs \cup OrderProgs \cup AllotProgs \cup MisplacedProgs
VARIABLES phase, prog
vars == <<phase, prog>>
Init == phase = "pick" /\ prog = [vars |-> <<>>, stmts |-> <<>>]
Pick == phase = "pick" /\ (\E p \in Progs : prog' = p) /\ phase' = "done"
Spec == Init /\ [][Pick]_vars
Emit == phase = "done" =>
  PrintT("GEN " \o ToJson([vars |-> prog.vars, stmts |-> prog.stmts, emptyvars |-> FALSE, edits |-> 0, flagovd |-> FALSE]))
=============================================================================
