------------------------------- MODULE Static -------------------------------
(***************************************************************************)
(* The static rules of the language (C16, C17), over the abstract syntax   *)
(* of Sem.tla.                                                             *)
(*   Valid(p)      the script is valid: every expression has the type its  *)
(*                 position requires given the declared variable types and *)
(*                 the built-in signatures, names are declared before use  *)
(*                 and once, literal portions sum to one, `remaining` is   *)
(*                 last, send-all sources are bounded.                     *)
(*   NameDiags     the exact multiset of unbound / duplicate / unused      *)
(*                 diagnostics, computed from the pre-order node list of   *)
(*                 the printing machine (declaration names and uses with   *)
(*                 their token spans).                                     *)
(*   Broken(p)     the set of static error classes a script has (what a    *)
(*                 sound checker must not miss, C17).                      *)
(* Deliberately conservative: Valid is a subset of the scripts the         *)
(* language accepts (only clearly valid ones are asserted error-free).     *)
(***************************************************************************)
EXTENDS Integers, Sequences, FiniteSets, TLC

AllowedTypes == {"monetary", "account", "portion", "asset", "number", "string"}
Sig(fn) == CASE fn = "set_tx_meta" -> <<"string", "any">>
             [] fn = "set_account_meta" -> <<"account", "string", "any">>
             [] fn = "meta" -> <<"account", "string">>
             [] fn = "balance" -> <<"account", "asset">>
             [] fn = "overdraft" -> <<"account", "asset">>
             [] OTHER -> <<>>
OriginFns == {"meta", "balance", "overdraft"}
StmtFns == {"set_tx_meta", "set_account_meta"}
Ret(fn) == IF fn = "meta" THEN "any" ELSE "monetary"

\* env: sequence of [name, type] declared so far (first declaration of a name wins)
Lookup(env, nm) == LET idx == {i \in 1..Len(env) : env[i].name = nm} IN
                   IF idx = {} THEN "?" ELSE env[CHOOSE i \in idx : \A j \in idx : i <= j].type
RECURSIVE TypeOf(_,_)
TypeOf(e, env) ==
  CASE e.k = "var" -> LET t == Lookup(env, e.name) IN IF t \in AllowedTypes THEN t ELSE "?"
    [] e.k = "acct" -> "account" [] e.k = "asset" -> "asset" [] e.k = "str" -> "string"
    [] e.k = "num" -> "number" [] e.k = "portion" -> "portion"
    [] e.k = "mon" -> IF TypeOf(e.asset, env) = "asset" /\ TypeOf(e.amt, env) = "number" THEN "monetary" ELSE "?"
    [] e.k = "infix" -> LET l == TypeOf(e.l, env)  r == TypeOf(e.r, env) IN
                        IF l = r /\ l \in {"number", "monetary"} THEN l ELSE "?"
    [] OTHER -> "?"
Has(e, env, t) == LET a == TypeOf(e, env) IN a # "?" /\ (t = "any" \/ a = t)

\* ---- allotments: exact sum of the literal portions by cross-multiplication ----
IsLit(p) == p.k = "portion"
PNum_(p) == IF "n" \in DOMAIN p THEN p.n ELSE 0
PDen_(p) == IF "d" \in DOMAIN p THEN p.d ELSE 1
RECURSIVE DenP(_,_), NumP(_,_,_)
DenP(it, i) == IF i > Len(it) THEN 1 ELSE (IF IsLit(it[i].p) THEN PDen_(it[i].p) ELSE 1) * DenP(it, i + 1)
NumP(it, i, D) == IF i > Len(it) THEN 0 ELSE (IF IsLit(it[i].p) /\ PDen_(it[i].p) # 0 THEN PNum_(it[i].p) * (D \div PDen_(it[i].p)) ELSE 0) + NumP(it, i + 1, D)
NRem(it) == Cardinality({i \in 1..Len(it) : it[i].p.k = "remaining"})
NVar(it) == Cardinality({i \in 1..Len(it) : it[i].p.k = "var"})
AllotValid(it, env) ==
  /\ Len(it) >= 1
  /\ \A i \in 1..Len(it) : it[i].p.k \in {"portion", "var", "remaining"}
  /\ \A i \in 1..Len(it) : IsLit(it[i].p) => (PDen_(it[i].p) > 0 /\ PNum_(it[i].p) >= 0)
  /\ \A i \in 1..Len(it) : it[i].p.k = "var" => Has(it[i].p, env, "portion")
  /\ NRem(it) <= 1 /\ (NRem(it) = 1 => it[Len(it)].p.k = "remaining")
  /\ LET D == DenP(it, 1)  S == NumP(it, 1, D) IN
     IF NRem(it) = 0 /\ NVar(it) = 0 THEN S = D ELSE S <= D

RECURSIVE SrcValid(_,_,_,_), DstValid(_,_), KodValid(_,_)
\* all: under send-all; capped: inside a max
SrcValid(s, env, all, capped) ==
  CASE s.k = "acct" -> Has(s.e, env, "account") /\ ~(all /\ ~capped /\ s.e.k = "acct" /\ s.e.v = "world")
    [] s.k = "ovd"  -> Has(s.e, env, "account") /\ Has(s.b, env, "monetary") /\ ~(s.e.k = "acct" /\ s.e.v = "world" /\ all /\ ~capped)
    [] s.k = "ovdu" -> Has(s.e, env, "account") /\ ~(all /\ ~capped)
    [] s.k = "seq"  -> \A i \in 1..Len(s.s) : SrcValid(s.s[i], env, all, capped)
    [] s.k = "cap"  -> Has(s.c, env, "monetary") /\ SrcValid(s.s, env, all, TRUE)
    [] s.k = "allot" -> ~(all /\ ~capped) /\ AllotValid(s.it, env) /\ \A i \in 1..Len(s.it) : SrcValid(s.it[i].s, env, all, capped)
    [] OTHER -> FALSE
KodValid(k, env) == k.k = "kept" \/ DstValid(k, env)
DstValid(d, env) ==
  CASE d.k = "acct" -> Has(d.e, env, "account")
    [] d.k = "ord"  -> (\A i \in 1..Len(d.cl) : Has(d.cl[i].c, env, "monetary") /\ KodValid(d.cl[i].to, env)) /\ KodValid(d.rem, env)
    [] d.k = "allot" -> AllotValid(d.it, env) /\ \A i \in 1..Len(d.it) : KodValid(d.it[i].to, env)
    [] OTHER -> FALSE
ArgsValid(args, sig, env) == Len(args) = Len(sig) /\ \A i \in 1..Len(args) : Has(args[i], env, sig[i])
StmtValid(st, env) ==
  CASE st.k = "send" -> Has(st.sent, env, IF st.all THEN "asset" ELSE "monetary") /\ SrcValid(st.src, env, st.all, FALSE) /\ DstValid(st.dst, env)
    [] st.k = "save" -> Has(st.sent, env, IF st.all THEN "asset" ELSE "monetary") /\ Has(st.e, env, "account")
    [] st.k = "call" -> st.name \in StmtFns /\ ArgsValid(st.args, Sig(st.name), env)
    [] OTHER -> FALSE
RECURSIVE DeclsValid(_,_,_)
\* declarations are read in order; an origin is evaluated before its own variable exists, so it can only use the
\* variables declared before it (a self-referencing origin is not valid)
DeclsValid(ds, i, env) ==
  IF i > Len(ds) THEN TRUE
  ELSE LET d == ds[i]
           env2 == Append(env, [name |-> d.name, type |-> d.type]) IN
       /\ d.type \in AllowedTypes
       /\ Lookup(env, d.name) = "?"                                    \* not declared before
       /\ (d.origin.k = "none" \/ ( /\ d.origin.name \in OriginFns
                                    /\ ArgsValid(d.origin.args, Sig(d.origin.name), env)
                                    /\ (Ret(d.origin.name) = "any" \/ Ret(d.origin.name) = d.type) ))
       /\ DeclsValid(ds, i + 1, env2)
EnvOf(ds) == [i \in 1..Len(ds) |-> [name |-> ds[i].name, type |-> ds[i].type]]
Valid(p) == DeclsValid(p.vars, 1, <<>>) /\ \A i \in 1..Len(p.stmts) : StmtValid(p.stmts[i], EnvOf(p.vars))

\* ---- name diagnostics from the pre-order node list --------------------------------
\* nodes: sequence of [kind, name, f, l]; walk in order (= textual order = the order declarations and uses are met)
\* (stated without recursion over the node list: long scripts would overflow TLC's evaluation stack)
IsDeclAt(nodes, j, nm) == nodes[j].kind = "DeclName" /\ nodes[j].name = nm
\* node i lies inside the very declaration whose name is node j (a use inside a declaration's own origin)
OwnDecl(nodes, j, i) == \E d \in 1..Len(nodes) : /\ nodes[d].kind = "VarDeclaration"
                                                  /\ nodes[d].f <= nodes[j].f /\ nodes[j].l <= nodes[d].l
                                                  /\ nodes[d].f <= nodes[i].f /\ nodes[i].l <= nodes[d].l
DeclaredBefore(nodes, i, nm) == \E j \in 1..(i - 1) : IsDeclAt(nodes, j, nm) /\ ~OwnDecl(nodes, j, i)
FirstDecl(nodes, nm) == CHOOSE i \in 1..Len(nodes) : IsDeclAt(nodes, i, nm) /\ ~DeclaredBefore(nodes, i, nm)
DeclaredNames(nodes) == {nodes[i].name : i \in {j \in 1..Len(nodes) : nodes[j].kind = "DeclName"}}
\* a use before (or without) a declaration refers to nothing: it is unbound and does not count as a use
UsedAfterDecl(nodes, nm) == \E i \in 1..Len(nodes) : nodes[i].kind = "Variable" /\ nodes[i].name = nm /\ DeclaredBefore(nodes, i, nm)
UsedAnywhere(nodes, nm) == \E i \in 1..Len(nodes) : nodes[i].kind = "Variable" /\ nodes[i].name = nm
\* set of <<kind, node index>>; one diagnostic per token
NameDiagSet(nodes) ==
     {<<"DuplicateVariable", i>> : i \in {j \in 1..Len(nodes) : nodes[j].kind = "DeclName" /\ DeclaredBefore(nodes, j, nodes[j].name)}}
  \cup {<<"UnboundVariable", i>> : i \in {j \in 1..Len(nodes) : nodes[j].kind = "Variable" /\ ~DeclaredBefore(nodes, j, nodes[j].name)}}
  \cup {<<"UnusedVar", FirstDecl(nodes, nm)>> : nm \in {x \in DeclaredNames(nodes) : ~UsedAnywhere(nodes, x)}}
\* a variable whose only uses precede its declaration: whether that counts as "never used" is left open
\* (the pinned checker reports it; the check neither requires nor forbids it)
MaybeUnusedSet(nodes) == {<<"UnusedVar", FirstDecl(nodes, nm)>> : nm \in {x \in DeclaredNames(nodes) : UsedAnywhere(nodes, x) /\ ~UsedAfterDecl(nodes, x)}}
=============================================================================
