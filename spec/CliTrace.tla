------------------------------ MODULE CliTrace ------------------------------
(* C20: the binary built from the working tree against the library on the effective input that Cli.tla dictates. *)
EXTENDS Integers, Sequences, FiniteSets, TLC, Json, IOUtils
Trace == ndJsonDeserialize(IOEnv.TRACE)
N == Len(Trace)
VARIABLE l
Init == l \in 1..N
Next == UNCHANGED l
Spec == Init /\ [][Next]_l
T == Trace[l]
Report(what) ==
  /\ TLCSet(2, TLCGet(2) + 1)
  /\ PrintT("VIOL " \o ToJson([prop |-> "C20", id |-> T.n, line |-> l, what |-> what]))
Check(what, cond) == cond \/ Report(what)
C20_Run == T.mode = "run" =>
  /\ Check("the binary crashed (panic / signal)", ~T.crashed)
  /\ Check("library succeeded but the binary exited non-zero", T.libst = "ok" => T.exit = 0)
  /\ Check("JSON output differs from the library's result on the effective input", (T.libst = "ok" /\ T.exit = 0) => T.stdout = T.libjson)
  /\ Check("library returned an error but the binary exited zero", (T.libst # "ok") => T.exit # 0)
  /\ Check("the error message is not on stderr", (T.libst # "ok" /\ T.exit # 0) => T.msgonstderr)
  /\ Check("postings were printed although the library returned an error", (T.libst # "ok") => ~T.resultprinted)
C20_Check == T.mode = "check" =>
  /\ Check("the binary crashed (panic / signal)", ~T.crashed)
  /\ Check("exit status does not reflect the presence of error-severity diagnostics", (T.exit # 0) <=> (T.nerr >= 1))
  /\ Check("not every diagnostic is printed with its position", T.allprinted /\ T.headers = T.ndiag)
Post == TLCGet(2) = 0
ASSUME TLCSet(2, 0)
=============================================================================
