SPECIFICATION Spec
INVARIANTS C03_ExactOrFail
POSTCONDITION Post
CHECK_DEADLOCK FALSE
