------------------------------ MODULE CallFam ------------------------------
(***************************************************************************)
(* Argument lists of built-in calls in every state of disrepair (C18, and  *)
(* C14 for the parser): for each built-in function (statement calls and    *)
(* variable origins, and one unknown name) every list of up to MaxArgs     *)
(* argument slots, each slot a well-formed expression, a keyword that is   *)
(* no expression (`max`, `to`: the parser leaves a hole in the argument    *)
(* list) or nothing at all (two commas in a row, a trailing comma) - so    *)
(* too few, exactly enough and too many arguments occur with holes before, *)
(* AT and after the position where the surplus begins.  TLC builds the     *)
(* text; EditTrace judges the analyses on it (no panic, positions inside   *)
(* the text, same diagnostics and symbols when analysed again).            *)
(***************************************************************************)
EXTENDS Integers, Sequences, FiniteSets, TLC, Json
CONSTANTS MaxArgs
Fns == << [name |-> "set_tx_meta", origin |-> FALSE], [name |-> "set_account_meta", origin |-> FALSE],
          [name |-> "balance", origin |-> TRUE], [name |-> "meta", origin |-> TRUE], [name |-> "overdraft", origin |-> TRUE],
          [name |-> "nosuch", origin |-> FALSE], [name |-> "nosuch", origin |-> TRUE] >>
Slots == {"ok", "max", "to", "empty"}
Good == << "@a", "\"k\"", "1", "USD/2", "$v", "[USD 3]" >>
VARIABLES f, args
Init == f \in 1..Len(Fns) /\ args \in UNION {[1..n -> Slots] : n \in 0..MaxArgs}
Next == UNCHANGED <<f, args>>
Spec == Init /\ [][Next]_<<f, args>>
Piece(i) == CASE args[i] = "ok" -> Good[((i - 1) % Len(Good)) + 1]
              [] args[i] = "max" -> "max"
              [] args[i] = "to" -> "to"
              [] OTHER -> ""
RECURSIVE Join(_)
Join(i) == IF i > Len(args) THEN "" ELSE Piece(i) \o (IF i < Len(args) THEN ", " ELSE "") \o Join(i + 1)
Call == Fns[f].name \o "(" \o Join(1) \o ")"
Text == IF Fns[f].origin
        THEN "vars {\n account $v\n monetary $b = " \o Call \o "\n}\nsend $b (\n source = $v\n destination = @x\n)\n"
        ELSE "vars {\n account $v\n}\n" \o Call \o "\nsend [USD 1] (\n source = $v\n destination = @x\n)\n"
\* design level: the number of well-formed arguments and the position of the first hole are what the family varies
NOk == Cardinality({i \in 1..Len(args) : args[i] = "ok"})
CallOk == NOk <= Len(args) /\ Len(args) <= MaxArgs
EmitInv == PrintT("GEN " \o ToJson([text |-> Text, fn |-> Fns[f].name, nargs |-> Len(args), nok |-> NOk]))
=============================================================================
