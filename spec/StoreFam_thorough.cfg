SPECIFICATION Spec
CONSTANTS Scope = "thorough"
INVARIANTS EmitInv
CHECK_DEADLOCK FALSE
