SPECIFICATION Spec
INVARIANTS C05_Credits
POSTCONDITION Post
CHECK_DEADLOCK FALSE
