SPECIFICATION Spec
CONSTANTS Scope = "quick"
 ReadMode = "full"
 Emit = TRUE
INVARIANTS EmitInv
CHECK_DEADLOCK FALSE
