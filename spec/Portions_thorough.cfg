SPECIFICATION PSpec
CONSTANTS Digits = {"0", "1", "2", "3", "5", "7", "8", "9"}
 MaxLenR = 2
 MaxLenP = 3
 MaxLenQ = 2
INVARIANTS C13_ValueSane PEmit
CHECK_DEADLOCK FALSE
