SPECIFICATION Spec
CONSTANTS Depth = 1
 Seps = {3, 4, 7}
 Rich = TRUE
INVARIANTS EmitInv
CHECK_DEADLOCK FALSE
