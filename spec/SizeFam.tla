------------------------------ MODULE SizeFam ------------------------------
(***************************************************************************)
(* Documents by SIZE (C18, C20): the properties quantify over every text,  *)
(* hence over every NUMBER of diagnostics, declarations and statements; a  *)
(* limit, a table, a counter of fixed width or a "first k" filter only     *)
(* shows when a count crosses it.  The family enumerates, for every        *)
(* threshold T (powers of two and round numbers) and every offset d, the   *)
(* descriptor of a document with exactly T + d diagnostics of one kind     *)
(* produced by its statements, followed - in the checker's order - by u    *)
(* "unused variable" warnings, which the checker collects from a map (the  *)
(* part whose order is not fixed).  The harness expands a descriptor into  *)
(* the text (a deterministic printer, no semantics); EditTrace judges the  *)
(* analyses: no panic, positions inside the text, and the SAME set of      *)
(* diagnostics and symbols every time the text is analysed.                *)
(***************************************************************************)
EXTENDS Integers, Sequences, FiniteSets, TLC, Json
CONSTANTS Thresholds, Offsets, Unused, Kinds,
          Shift      \* an offset o stands for o - Shift (a configuration file cannot hold negative numbers)
VARIABLE d
Init == d \in {x \in [t : Thresholds, o : Offsets, u : Unused, k : Kinds] : x.t + x.o - Shift >= 1}
Next == UNCHANGED d
Spec == Init /\ [][Next]_d
N == d.t + d.o - Shift
\* design level: the expected number of diagnostics of the expanded document (the harness reports a mismatch as "no verdict")
Expected == [n |-> N, unused |-> d.u, kind |-> d.k, diags |-> N + d.u,
             errors |-> IF d.k \in {"unbound", "mismatch", "dupdecl"} THEN N ELSE 0]
SizeOk == N >= 1 /\ Expected.diags >= Expected.errors
EmitInv == PrintT("GEN " \o ToJson(Expected))
=============================================================================
