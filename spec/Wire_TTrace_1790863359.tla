---- MODULE Wire_TTrace_1790863359 ----
EXTENDS Sequences, TLCExt, Toolbox, Naturals, TLC, Wire

_expression ==
    LET Wire_TEExpression == INSTANCE Wire_TEExpression
    IN Wire_TEExpression!expression
----

_trace ==
    LET Wire_TETrace == INSTANCE Wire_TETrace
    IN Wire_TETrace!trace
----

_inv ==
    ~(
        TLCGet("level") = Len(_TETrace)
        /\
        mode = ("hdr")
        /\
        cur = (2)
        /\
        buf = (<<>>)
        /\
        need = (0)
        /\
        decoded = (<<<<<<"b", 1, 1>>>>>>)
        /\
        pipe = (<<>>)
        /\
        sent = (7)
        /\
        cuts = ({7})
    )
----

_init ==
    /\ need = _TETrace[1].need
    /\ cur = _TETrace[1].cur
    /\ mode = _TETrace[1].mode
    /\ decoded = _TETrace[1].decoded
    /\ pipe = _TETrace[1].pipe
    /\ buf = _TETrace[1].buf
    /\ sent = _TETrace[1].sent
    /\ cuts = _TETrace[1].cuts
----

_next ==
    /\ \E i,j \in DOMAIN _TETrace:
        /\ \/ /\ j = i + 1
              /\ i = TLCGet("level")
        /\ need  = _TETrace[i].need
        /\ need' = _TETrace[j].need
        /\ cur  = _TETrace[i].cur
        /\ cur' = _TETrace[j].cur
        /\ mode  = _TETrace[i].mode
        /\ mode' = _TETrace[j].mode
        /\ decoded  = _TETrace[i].decoded
        /\ decoded' = _TETrace[j].decoded
        /\ pipe  = _TETrace[i].pipe
        /\ pipe' = _TETrace[j].pipe
        /\ buf  = _TETrace[i].buf
        /\ buf' = _TETrace[j].buf
        /\ sent  = _TETrace[i].sent
        /\ sent' = _TETrace[j].sent
        /\ cuts  = _TETrace[i].cuts
        /\ cuts' = _TETrace[j].cuts

\* Uncomment the ASSUME below to write the states of the error trace
\* to the given file in Json format. Note that you can pass any tuple
\* to `JsonSerialize`. For example, a sub-sequence of _TETrace.
    \* ASSUME
    \*     LET J == INSTANCE Json
    \*         IN J!JsonSerialize("Wire_TTrace_1790863359.json", _TETrace)

=============================================================================

 Note that you can extract this module `Wire_TEExpression`
  to a dedicated file to reuse `expression` (the module in the 
  dedicated `Wire_TEExpression.tla` file takes precedence 
  over the module `Wire_TEExpression` below).

---- MODULE Wire_TEExpression ----
EXTENDS Sequences, TLCExt, Toolbox, Naturals, TLC, Wire

expression == 
    [
        \* To hide variables of the `Wire` spec from the error trace,
        \* remove the variables below.  The trace will be written in the order
        \* of the fields of this record.
        need |-> need
        ,cur |-> cur
        ,mode |-> mode
        ,decoded |-> decoded
        ,pipe |-> pipe
        ,buf |-> buf
        ,sent |-> sent
        ,cuts |-> cuts
        
        \* Put additional constant-, state-, and action-level expressions here:
        \* ,_stateNumber |-> _TEPosition
        \* ,_needUnchanged |-> need = need'
        
        \* Format the `need` variable as Json value.
        \* ,_needJson |->
        \*     LET J == INSTANCE Json
        \*     IN J!ToJson(need)
        
        \* Lastly, you may build expressions over arbitrary sets of states by
        \* leveraging the _TETrace operator.  For example, this is how to
        \* count the number of times a spec variable changed up to the current
        \* state in the trace.
        \* ,_needModCount |->
        \*     LET F[s \in DOMAIN _TETrace] ==
        \*         IF s = 1 THEN 0
        \*         ELSE IF _TETrace[s].need # _TETrace[s-1].need
        \*             THEN 1 + F[s-1] ELSE F[s-1]
        \*     IN F[_TEPosition - 1]
    ]

=============================================================================



Parsing and semantic processing can take forever if the trace below is long.
 In this case, it is advised to uncomment the module below to deserialize the
 trace from a generated binary file.

\*
\*---- MODULE Wire_TETrace ----
\*EXTENDS IOUtils, TLC, Wire
\*
\*trace == IODeserialize("Wire_TTrace_1790863359.bin", TRUE)
\*
\*=============================================================================
\*

---- MODULE Wire_TETrace ----
EXTENDS TLC, Wire

trace == 
    <<
    ([mode |-> "hdr",cur |-> 1,buf |-> <<>>,need |-> 0,decoded |-> <<>>,pipe |-> <<>>,sent |-> 0,cuts |-> {7}]),
    ([mode |-> "hdr",cur |-> 1,buf |-> <<>>,need |-> 0,decoded |-> <<>>,pipe |-> <<<<"h", 1, 1>>, <<"h", 1, 2>>, <<"s", 1, 1>>, <<"s", 1, 2>>, <<"s", 1, 3>>, <<"s", 1, 4>>, <<"b", 1, 1>>>>,sent |-> 7,cuts |-> {7}]),
    ([mode |-> "hdr",cur |-> 1,buf |-> <<<<"h", 1, 1>>, <<"h", 1, 2>>, <<"s", 1, 1>>, <<"s", 1, 2>>, <<"s", 1, 3>>, <<"s", 1, 4>>, <<"b", 1, 1>>>>,need |-> 0,decoded |-> <<>>,pipe |-> <<>>,sent |-> 7,cuts |-> {7}]),
    ([mode |-> "body",cur |-> 1,buf |-> <<<<"b", 1, 1>>>>,need |-> 2,decoded |-> <<>>,pipe |-> <<>>,sent |-> 7,cuts |-> {7}]),
    ([mode |-> "hdr",cur |-> 2,buf |-> <<>>,need |-> 0,decoded |-> <<<<<<"b", 1, 1>>>>>>,pipe |-> <<>>,sent |-> 7,cuts |-> {7}])
    >>
----


=============================================================================

---- CONFIG Wire_TTrace_1790863359 ----
CONSTANTS
    Scope = "quick"
    ReadMode = "once"
    Emit = FALSE

INVARIANT
    _inv

CHECK_DEADLOCK
    \* CHECK_DEADLOCK off because of PROPERTY or INVARIANT above.
    FALSE

INIT
    _init

NEXT
    _next

CONSTANT
    _TETrace <- _trace

ALIAS
    _expression
=============================================================================
\* Generated on Thu Oct 01 14:02:41 UTC 2026