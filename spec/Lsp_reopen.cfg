SPECIFICATION Spec
CONSTANTS NUris = 1
 NTexts = 2
 NProbes = 1
 MaxLen = 7
 MultiChange = FALSE
 TailMode = TRUE
INVARIANTS C19_LatestOfRightDoc C19_DocsIsLast C19_VersionsRestart EmitInv
CHECK_DEADLOCK FALSE
