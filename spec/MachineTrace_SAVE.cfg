SPECIFICATION Spec
INVARIANTS C01_NoOverdraft C02_RealTransfer C03_ExactOrFail C04_Debits C07_Flow C08_SaveStep C12_NoPanic
POSTCONDITION Post
CHECK_DEADLOCK FALSE
