------------------------------ MODULE LexTrace ------------------------------
(***************************************************************************)
(* C14 / C15 at the level of characters: the real lexer and parser on the  *)
(* texts of LexFam.tla.  Each line carries the text, what Lexer!Lex says   *)
(* (token list, error texts), whether Grammar!Accepts the token kinds, and *)
(* what the real lexer produced and how many errors the parser reported.   *)
(* With the lexer specified, C14's "accepted iff in the language" holds    *)
(* for every text, not only for texts made of whole tokens.                *)
(***************************************************************************)
EXTENDS Integers, Sequences, FiniteSets, TLC, Json, IOUtils
Trace == ndJsonDeserialize(IOEnv.TRACE)
N == Len(Trace)
VARIABLE l
Init == l \in 1..N
Next == UNCHANGED l
Spec == Init /\ [][Next]_l
T == Trace[l]
O == T.obs
Report(prop, what) ==
  /\ TLCSet(2, TLCGet(2) + 1)
  /\ PrintT("VIOL " \o ToJson([prop |-> prop, id |-> T.id, line |-> l, what |-> what]))
Check(prop, what, cond) == cond \/ Report(prop, what)
Judged == O.panic = "" /\ ~T.unspec
SameToks == Len(O.toks) = Len(T.exptoks) /\ \A i \in 1..Len(O.toks) : O.toks[i][1] = T.exptoks[i][1] /\ O.toks[i][2] = T.exptoks[i][2]
C14_Lexed ==
  /\ Check("C14", "the lexer or the parser panicked", O.panic = "")
  /\ Check("C14", "a text in the language (every character belongs to a token, the tokens form a program) was reported with errors",
           (Judged /\ T.accepts) => O.nerr = 0)
  /\ Check("C14", "a text outside the language (a character no token starts with, or tokens that form no program) was accepted without any error",
           (Judged /\ ~T.accepts) => O.nerr > 0)
  /\ Check("C14", "the characters rejected by the lexer are not the ones the lexer rules reject (or they are not reported by Parse)",
           Judged => (O.errs = T.experrs /\ O.perrs = T.experrs))
C15_Tokens ==
  /\ Check("C15", "the token list differs from the longest-match / first-rule reading of the text", Judged => SameToks)
Post == TLCGet(2) = 0
ASSUME TLCSet(2, 0)
=============================================================================
