SPECIFICATION Spec
CONSTANTS Family = "src"
 Scope = "thorough"
 Emit = TRUE
INVARIANTS EmitInv
CHECK_DEADLOCK FALSE
