SPECIFICATION Spec
INVARIANTS C12_Faults
POSTCONDITION Post
CHECK_DEADLOCK FALSE
