SPECIFICATION Spec
CONSTANTS Scope = "names"
INVARIANTS Emit
CHECK_DEADLOCK FALSE
