SPECIFICATION Spec
INVARIANTS C01_NoOverdraft
POSTCONDITION Post
CHECK_DEADLOCK FALSE
