------------------------------- MODULE DrawApa -------------------------------
(***************************************************************************)
(* C01 / C03 / C04 for UNBOUNDED numbers: typed twin of Sem!DrawSeq over   *)
(* a flat ordered source  { max c1 from @a1 allowing overdraft up to o1    *)
(*                          ...  max cM from @aM allowing ... oM }         *)
(* as the machine the interpreter runs (trySendingUpTo, one step per       *)
(* listed source; the visible balance of an account is reduced by what     *)
(* this statement already pulled from it).  Balances, the amount, caps     *)
(* and overdraft grants are symbolic integers without any bound (balances  *)
(* and caps may be negative); the M slots name accounts 1..A, the same     *)
(* account may be named several times.  Apalache discharges                *)
(*     Init => IndInvFinal      IndInvFinal /\ Next => IndInvFinal'        *)
(* which gives, for every size of number:                                  *)
(*  C01  an account never goes below min(its starting balance, minus the   *)
(*       largest overdraft granted to it so far);                          *)
(*  C04  a later source is used only for what the earlier ones could not   *)
(*       give: while something is still needed, every source passed gave   *)
(*       exactly min(cap (negative = 0), balance left + grant);            *)
(*  C03  at the end either exactly n was drawn, or less - and then every   *)
(*       source was drawn to its limit (the failure is a genuine lack of   *)
(*       funds).                                                           *)
(***************************************************************************)
EXTENDS Integers, Apalache

M == 3      \* listed sources
A == 2      \* distinct accounts

VARIABLES
  \* @type: Int -> Int;
  acc,      \* slot -> account
  \* @type: Int -> Int;
  ovd,      \* slot -> overdraft granted by that slot (>= 0; 0 = none)
  \* @type: Int -> Int;
  cap,      \* slot -> enclosing cap (any integer; a slot without cap carries n0)
  \* @type: Int -> Int;
  bal0,     \* account -> starting balance (history)
  \* @type: Int -> Int;
  vis,      \* account -> balance still visible to this statement
  \* @type: Int -> Int;
  grant,    \* account -> largest overdraft granted by the slots passed so far (history)
  \* @type: Int;
  i,        \* next slot
  \* @type: Int;
  need,     \* still to draw
  \* @type: Int;
  n0,       \* the amount of the statement (history)
  \* @type: Int;
  total,    \* drawn so far
  \* @type: Bool;
  lim       \* history: every slot passed so far gave exactly its own limit

Max2(x, y) == IF x >= y THEN x ELSE y
Min2(x, y) == IF x <= y THEN x ELSE y

Slots == 1..M
Accts == 1..A
Shape ==
  /\ DOMAIN acc = Slots /\ DOMAIN ovd = Slots /\ DOMAIN cap = Slots
  /\ DOMAIN bal0 = Accts /\ DOMAIN vis = Accts /\ DOMAIN grant = Accts
  /\ \A s \in Slots : acc[s] \in Accts /\ ovd[s] >= 0

Init ==
  /\ acc = Gen(M) /\ ovd = Gen(M) /\ cap = Gen(M) /\ bal0 = Gen(A) /\ vis = Gen(A) /\ grant = Gen(A)
  /\ Shape
  /\ vis = bal0 /\ grant = [a \in Accts |-> 0]
  /\ n0 = Gen(1) /\ n0 >= 0 /\ need = n0 /\ total = 0 /\ i = 1 /\ lim = TRUE

OwnLimit(s) == Min2(Max2(0, cap[s]), Max2(0, vis[acc[s]] + ovd[s]))
Step ==
  /\ i <= M
  /\ LET a == acc[i]
         g == Min2(Max2(0, Min2(need, cap[i])), Max2(0, vis[a] + ovd[i])) IN
     /\ vis' = [vis EXCEPT ![a] = @ - g]
     /\ grant' = [grant EXCEPT ![a] = Max2(@, ovd[i])]
     /\ need' = need - g /\ total' = total + g
     /\ lim' = (lim /\ g = OwnLimit(i))
  /\ i' = i + 1
  /\ UNCHANGED <<acc, ovd, cap, bal0, n0>>
Next == Step

\* vacuity guard (must be refuted): an implementation that looks at the STARTING balance at every slot - the defect D1
\* of the pinned tree ({@a @a} overdraws)
StepBad ==
  /\ i <= M
  /\ LET a == acc[i]
         g == Min2(Max2(0, Min2(need, cap[i])), Max2(0, bal0[a] + ovd[i])) IN
     /\ vis' = [vis EXCEPT ![a] = @ - g]
     /\ grant' = [grant EXCEPT ![a] = Max2(@, ovd[i])]
     /\ need' = need - g /\ total' = total + g
     /\ lim' = (lim /\ g = OwnLimit(i))
  /\ i' = i + 1
  /\ UNCHANGED <<acc, ovd, cap, bal0, n0>>
NextBad == StepBad

IndInv ==
  /\ Shape
  /\ i \in 1..(M + 1)
  /\ n0 >= 0 /\ need >= 0 /\ total >= 0 /\ need + total = n0
  /\ \A a \in Accts : grant[a] >= 0 /\ vis[a] <= bal0[a]
  \* C01
  /\ \A a \in Accts : vis[a] >= Min2(bal0[a], 0 - grant[a])
  \* C04
  /\ (need > 0 => lim)
Final == i = M + 1 =>
  \/ total = n0                               \* exactly the amount ...
  \/ (total < n0 /\ lim)                      \* ... or a genuine lack of funds (the execution fails)
IndInvFinal == IndInv /\ Final

\* vacuity guard (must be refuted within M steps): a run that ends short of the amount after touching the same account twice
NeverShort == ~(i = M + 1 /\ total < n0 /\ total > 0 /\ acc[1] = acc[2] /\ vis[acc[1]] < 0)

IndInit ==
  /\ acc = Gen(M) /\ ovd = Gen(M) /\ cap = Gen(M) /\ bal0 = Gen(A) /\ vis = Gen(A) /\ grant = Gen(A)
  /\ i = Gen(1) /\ need = Gen(1) /\ n0 = Gen(1) /\ total = Gen(1)
  /\ lim \in BOOLEAN
  /\ IndInvFinal
=============================================================================
