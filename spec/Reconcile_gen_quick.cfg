SPECIFICATION Spec
CONSTANTS MaxLen = 3
 MaxAmt = 2
 Emit = TRUE
INVARIANTS EmitInv
CHECK_DEADLOCK FALSE
