-------------------------------- MODULE Edit --------------------------------
(***************************************************************************)
(* Documents a user passes through while typing (C14, C18).  Starting from *)
(* the token list of a well-formed script (Printer!PProg of a generated    *)
(* tree) the edit actions produce: every prefix (cut inside any token at   *)
(* any character), a token deleted / duplicated / swapped with its         *)
(* neighbour / replaced, a token of the alphabet inserted anywhere         *)
(* (brackets, keywords, names, literals, garbage characters, a numeral     *)
(* beyond 64 bits), and with Depth = 2 every pair of whole-token edits.    *)
(* Every document is then PRINTED by the same kind of machine as           *)
(* Syntax.tla (one token per step) which keeps the line table, and at the  *)
(* end one JSON line is emitted: text, line lengths, whether the lexemes   *)
(* are all whole tokens (lexok) and whether Grammar!Accepts the sequence.  *)
(***************************************************************************)
EXTENDS Printer, Grammar, Lexer, Json, IOUtils, SequencesExt

Trees == ndJsonDeserialize(IOEnv.TREES)
CONSTANTS Depth, Seps, Rich

Alphabet == IF Rich THEN {"{", "}", "(", ")", "[", "]", "=", "*", ",", "send", "max", "remaining", "kept", "to", "from", "@x", "$v", "USD", "5", "-3", "1/2", "50%",
                          "\"s\"", "-", "+", "vars", "source", "destination", "allowing", "overdraft", "save", "set_tx_meta", "account",
                          "150%", "100.5%", "0/0", "-9223372036854775808"}
            ELSE {"{", "}", "(", "]", "=", "send", "remaining", "@x", "$v", "USD", "5", "1/2", "-", "vars", "overdraft", "account", "150%", "0/0"}
Garbage == IF Rich THEN {"^", "%", "#", "\"open", "@", "$", "1/", "/*", "9.5"} ELSE {"^", "#", "\"open", "$"}

ERemove(t, i) == SubSeq(t, 1, i - 1) \o SubSeq(t, i + 1, Len(t))
EInsert(t, i, x) == SubSeq(t, 1, i - 1) \o <<x>> \o SubSeq(t, i, Len(t))    \* x becomes element i
EReplace(t, i, x) == [t EXCEPT ![i] = x]
ESwap(t, i) == [t EXCEPT ![i] = t[i + 1], ![i + 1] = t[i]]
\* whole-token edits keep lexok
Whole1(t) == {ERemove(t, i) : i \in 1..Len(t)} \cup {EInsert(t, i, t[i]) : i \in 1..Len(t)}
        \cup {EInsert(t, i, a) : i \in 1..(Len(t) + 1), a \in Alphabet}
        \cup {ESwap(t, i) : i \in 1..(Len(t) - 1)}
        \cup {EReplace(t, i, a) : i \in 1..Len(t), a \in Alphabet}
\* edits that leave partial or garbage lexemes
EPrefixes(t) == {SubSeq(t, 1, i) : i \in 0..Len(t)}
Dirty1(t) == UNION {{SubSeq(t, 1, i - 1) \o <<SubSeq(t[i], 1, j)>> : j \in 1..(Len(t[i]) - 1)} : i \in 1..Len(t)}
        \cup {EInsert(t, i, g) : i \in 1..(Len(t) + 1), g \in Garbage}

VARIABLES ti, toks, lexok, sep, i, pos, lens, text
vars == <<ti, toks, lexok, sep, i, pos, lens, text>>

Init == /\ ti \in 1..Len(Trees)
        /\ LET base == PProg(Trees[ti]).toks IN
           \/ (toks \in ({base} \cup EPrefixes(base) \cup Whole1(base)) /\ lexok = TRUE)
           \/ (toks \in Dirty1(base) /\ lexok = FALSE)
           \* (two successive edits: only on short scripts, the number of results grows with the square of the length)
           \/ (Depth >= 2 /\ Len(base) <= 16 /\ toks \in UNION {Whole1(x) : x \in Whole1(base)} /\ lexok = TRUE)
        /\ sep \in Seps
        /\ i = 1 /\ pos = [ln |-> 0, ch |-> 0] /\ lens = <<>> /\ text = ""

\* separator before token i: mostly a space, a newline every sep-th token
SepFor(k) == IF k = 1 THEN "" ELSE IF (k % sep) = 0 THEN "\n" ELSE " "
Emit == /\ i <= Len(toks)
        /\ LET s == SepFor(i)
               st == IF s = "\n" THEN [ln |-> pos.ln + 1, ch |-> 0] ELSE [ln |-> pos.ln, ch |-> pos.ch + Len(s)] IN
           /\ lens' = IF s = "\n" THEN Append(lens, pos.ch) ELSE lens
           /\ pos' = [ln |-> st.ln, ch |-> st.ch + Len(toks[i])]
           /\ text' = text \o s \o toks[i]
        /\ i' = i + 1 /\ UNCHANGED <<ti, toks, lexok, sep>>
Next == Emit
Spec == Init /\ [][Next]_vars
Done == i > Len(toks)
\* the line table of the printed text (a trailing newline is added for odd separators)
Trail == (sep % 2) = 1
\* the verdict comes from the characters (Lexer!Lex on the printed text), not from the token list the text was made
\* of: joining lexemes can merge or split them (`1/` then `2` is the ratio `1/ 2`), and partial or garbage lexemes are
\* decided like everything else.  lexok = the lexer rejects no character.
Out == LET full == IF Trail THEN text \o "\n" ELSE text
           lx == Lex(full) IN
       [id |-> Trees[ti].id, text |-> full,
        lines |-> IF Trail THEN lens \o <<pos.ch, 0>> ELSE lens \o <<pos.ch>>,
        lexok |-> lx.errs = <<>>, accepts |-> lx.errs = <<>> /\ AcceptsKinds(KindsOf(lx.toks)), unspec |-> Unspecified(full), ntoks |-> Len(toks)]
EmitInv == Done => PrintT("GEN " \o ToJson(Out))
=============================================================================
