SPECIFICATION Spec
CONSTANTS Merge = "merge"
 Faults = TRUE
 Emit = TRUE
 Scope = "quick"
INVARIANTS EmitInv

CHECK_DEADLOCK FALSE
