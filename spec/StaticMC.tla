------------------------------ MODULE StaticMC ------------------------------
(***************************************************************************)
(* C17 at design level: the static rules of Static.tla are SOUND with      *)
(* respect to the dynamic semantics of Sem.tla.  For every program of a    *)
(* bounded family in which every expression position is filled with        *)
(* well- and ill-typed expressions (literals of the six types, declared    *)
(* and undeclared variables, monetary construction, + and - on matching    *)
(* and mismatching operands) and every call with right and wrong arity /   *)
(* name, and variable values of the declared types:                        *)
(*      Static!Valid(p)  =>  Sem!Run(p) does not fail with a type error,   *)
(*      an unbound variable or function, a wrong arity or an unknown type  *)
(* and a send-all whose source shape is statically valid does not fail     *)
(* with a send-all shape error.  (This is where a rule set that ignores    *)
(* the operands of + and -, like the pinned checker, is refuted.)          *)
(***************************************************************************)
EXTENDS Sem, Static

A == "USD"
Lit == { [k |-> "acct", v |-> "x"], [k |-> "asset", v |-> A], [k |-> "str", v |-> "k"], [k |-> "num", v |-> 2], [k |-> "portion", n |-> 1, d |-> 2] }
VarE == { [k |-> "var", name |-> nm] : nm \in {"a", "n", "m", "s", "u"} }
Atoms == Lit \cup VarE
Mons == { [k |-> "mon", asset |-> x, amt |-> y] : x \in {[k |-> "asset", v |-> A], [k |-> "var", name |-> "s"], [k |-> "acct", v |-> "x"]},
                                                  y \in {[k |-> "num", v |-> 2], [k |-> "var", name |-> "n"], [k |-> "str", v |-> "k"]} }
Infixes == { [k |-> "infix", op |-> o, l |-> x, r |-> y] : o \in {"+", "-"},
             x \in {[k |-> "num", v |-> 2], [k |-> "var", name |-> "m"], [k |-> "str", v |-> "k"], [k |-> "var", name |-> "n"]},
             y \in {[k |-> "num", v |-> 1], [k |-> "var", name |-> "m"], [k |-> "acct", v |-> "x"]} }
Exprs == Atoms \cup Mons \cup Infixes
Decls == << [type |-> "account", name |-> "a", origin |-> [k |-> "none"], val |-> VAcct("b")],
            [type |-> "number", name |-> "n", origin |-> [k |-> "none"], val |-> VNum(3)],
            [type |-> "monetary", name |-> "m", origin |-> [k |-> "none"], val |-> VMon(A, 5)],
            [type |-> "asset", name |-> "s", origin |-> [k |-> "none"], val |-> VAsset(A)] >>
Acct(e) == [k |-> "acct", e |-> e]
World == Acct([k |-> "acct", v |-> "world"])
Dst == Acct([k |-> "acct", v |-> "d"])

VARIABLES prog, pick
vars == <<prog, pick>>
Case(stmt) == [vars |-> Decls, stmts |-> <<stmt>>, bal |-> [b |-> [USD |-> 100]], flagovd |-> TRUE]
Init == pick \in {"sent", "src", "ovd", "cap", "dst", "clause", "allot", "save", "call", "sendall"} /\ prog = Case([k |-> "call", name |-> "set_tx_meta", args |-> <<>>])
Choose ==
  /\ prog.stmts[1].k = "call" /\ prog.stmts[1].args = <<>> /\ prog.stmts[1].name = "set_tx_meta"
  /\ \E e \in Exprs, f \in Exprs :
       prog' = Case(
         CASE pick = "sent"  -> [k |-> "send", all |-> FALSE, sent |-> e, src |-> World, dst |-> Dst]
           [] pick = "src"   -> [k |-> "send", all |-> FALSE, sent |-> [k |-> "mon", asset |-> [k |-> "asset", v |-> A], amt |-> [k |-> "num", v |-> 1]], src |-> Acct(e), dst |-> Acct(f)]
           [] pick = "ovd"   -> [k |-> "send", all |-> FALSE, sent |-> [k |-> "mon", asset |-> [k |-> "asset", v |-> A], amt |-> [k |-> "num", v |-> 1]], src |-> [k |-> "ovd", e |-> e, b |-> f], dst |-> Dst]
           [] pick = "cap"   -> [k |-> "send", all |-> FALSE, sent |-> [k |-> "mon", asset |-> [k |-> "asset", v |-> A], amt |-> [k |-> "num", v |-> 1]], src |-> [k |-> "cap", c |-> e, s |-> Acct(f)], dst |-> Dst]
           [] pick = "dst"   -> [k |-> "send", all |-> FALSE, sent |-> f, src |-> World, dst |-> Acct(e)]
           [] pick = "clause" -> [k |-> "send", all |-> FALSE, sent |-> [k |-> "mon", asset |-> [k |-> "asset", v |-> A], amt |-> [k |-> "num", v |-> 4]], src |-> World,
                                  dst |-> [k |-> "ord", cl |-> << [c |-> e, to |-> Dst] >>, rem |-> Acct(f)]]
           [] pick = "allot" -> [k |-> "send", all |-> FALSE, sent |-> [k |-> "mon", asset |-> [k |-> "asset", v |-> A], amt |-> [k |-> "num", v |-> 4]], src |-> World,
                                  dst |-> [k |-> "allot", it |-> << [p |-> e, to |-> Dst], [p |-> [k |-> "remaining"], to |-> Acct(f)] >>]]
           [] pick = "save"  -> [k |-> "save", all |-> FALSE, sent |-> e, e |-> f]
           [] pick = "call"  -> [k |-> "call", name |-> "set_account_meta", args |-> <<e, f, e>>]
           [] pick = "sendall" -> [k |-> "send", all |-> TRUE, sent |-> e, src |-> [k |-> "seq", s |-> <<Acct(f), [k |-> "ovd", e |-> [k |-> "acct", v |-> "b"], b |-> f]>>], dst |-> Dst])
  /\ UNCHANGED pick
CallVariants == /\ pick = "call" /\ prog.stmts[1].args = <<>>
                /\ \E nm \in {"set_tx_meta", "set_account_meta", "meta", "frob"}, args \in {<<>>, <<[k |-> "str", v |-> "k"]>>, <<[k |-> "str", v |-> "k"], [k |-> "num", v |-> 1]>>,
                                  <<[k |-> "acct", v |-> "x"], [k |-> "str", v |-> "k"], [k |-> "num", v |-> 1]>>, <<[k |-> "num", v |-> 1], [k |-> "str", v |-> "k"], [k |-> "num", v |-> 1]>>} :
                     prog' = Case([k |-> "call", name |-> nm, args |-> args]) /\ (nm # "set_tx_meta" \/ args # <<>>)
                /\ UNCHANGED pick
Next == Choose \/ CallVariants
Spec == Init /\ [][Next]_vars

StaticClass == {E_Type, E_UnboundVar, E_UnboundFn, E_BadArity, E_InvalidType}
ShapeClass == {E_UnbInSendAll, E_AllotInSendAll}
P == [vars |-> prog.vars, stmts |-> prog.stmts]
C17_Soundness == Valid(P) => (Run(prog).err \notin StaticClass /\ Run(prog).err \notin ShapeClass)
\* non-vacuity witnesses (checked as expected violations by the runner would be overkill: counted instead)
=============================================================================
