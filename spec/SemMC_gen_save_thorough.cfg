SPECIFICATION Spec
CONSTANTS Family = "save"
 Scope = "quick"
 Emit = TRUE
INVARIANTS EmitInv
CHECK_DEADLOCK FALSE
