SPECIFICATION Spec
INVARIANTS C07_Reconcile
POSTCONDITION Post
CHECK_DEADLOCK FALSE
