SPECIFICATION Spec
INVARIANTS C15_Exact
POSTCONDITION Post
CHECK_DEADLOCK FALSE
