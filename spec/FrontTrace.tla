----------------------------- MODULE FrontTrace -----------------------------
(***************************************************************************)
(* Judging the real front end against what the specification printed.      *)
(* Each line: the text printed by Syntax.tla, the expected pre-order node  *)
(* list with ranges (expnodes), the expected flattened tree (expflat), and *)
(* what the real parser returned on that text (obs).                       *)
(***************************************************************************)
EXTENDS Integers, Sequences, FiniteSets, TLC, Json, IOUtils
Trace == ndJsonDeserialize(IOEnv.TRACE)
N == Len(Trace)
VARIABLE l
Init == l \in 1..N
Next == UNCHANGED l
Spec == Init /\ [][Next]_l
T == Trace[l]
Report(prop, what, k) ==
  /\ TLCSet(2, TLCGet(2) + 1)
  /\ PrintT("VIOL " \o ToJson([prop |-> prop, id |-> T.n, line |-> l, what |-> what, at |-> k]))
Check(prop, what, cond) == cond \/ Report(prop, what, 0)
\* first index at which two sequences differ (0 = none)
FirstDiff(a, b) == IF a = b THEN 0
                   ELSE LET m == IF Len(a) < Len(b) THEN Len(a) ELSE Len(b)
                            ds == {i \in 1..m : a[i] # b[i]} IN
                        IF ds = {} THEN m + 1 ELSE CHOOSE i \in ds : \A j \in ds : i <= j
C15_Exact ==
  /\ Check("C15", "the parser panicked on a well-formed script", T.obs.panic = "")
  /\ Check("C15", "a well-formed script was reported with syntax errors", T.obs.panic # "" \/ T.obs.nerr = 0)
  /\ Check("C15", "the parsed tree has holes", T.obs.panic # "" \/ ~T.obs.holes)
  /\ (T.obs.panic # "" \/ T.obs.holes \/ T.obs.flat = T.expflat
        \/ Report("C15", "structure or literal values of the parsed tree differ from the written script (flattened tree, first difference)", FirstDiff(T.obs.flat, T.expflat)))
  /\ (T.obs.panic # "" \/ T.obs.holes \/ T.obs.nodes = T.expnodes
        \/ Report("C15", "node kinds or ranges differ from first-character .. just-past-last-token (pre-order node list, first difference)", FirstDiff(T.obs.nodes, T.expnodes)))
\* ---- C14 on well-formed texts: accepted with zero errors under every layout
C14_ValidAccepted ==
  /\ Check("C14", "the parser panicked on a well-formed script", T.obs.panic = "")
  /\ Check("C14", "a well-formed script was reported with syntax errors", T.obs.panic # "" \/ T.obs.nerr = 0)

\* ---- C16: the checker on texts whose static validity and name diagnostics the specification computed
NameKinds == {"UnboundVariable", "DuplicateVariable", "UnusedVar"}
D == T.obs.diags                      \* <<kind, severity, sl, sc, el, ec, name>>
\* a diagnostic about a variable is recognised by its severity, exact range and the variable's name; the Go type
\* name of its kind is not pinned (a renamed kind is not a missing diagnostic)
SevOf(k) == IF k = "UnusedVar" THEN 2 ELSE 1
Matches(i, x) == D[i][2] = SevOf(x[1]) /\ <<D[i][3], D[i][4], D[i][5], D[i][6]>> = <<x[2], x[3], x[4], x[5]>> /\ D[i][7] = x[6]
ExpSet == {T.expnames[i] : i \in 1..Len(T.expnames)}
MaybeSet == IF "maybe" \in DOMAIN T THEN {T.maybe[i] : i \in 1..Len(T.maybe)} ELSE {}
CountObs(x) == Cardinality({i \in 1..Len(D) : Matches(i, x)})
ObsNameIdx == {i \in 1..Len(D) : D[i][1] \in NameKinds}
C16_Checker ==
  /\ Check("C16", "the checker panicked", T.obs.panic = "")
  /\ (T.obs.panic # "" \/ ~T.valid \/ (\A i \in 1..Len(D) : D[i][2] # 1)
        \/ Report("C16", "a statically valid script received an error-severity diagnostic", CHOOSE j \in 1..Len(D) : D[j][2] = 1))
  /\ (T.obs.panic # "" \/ (\A x \in ExpSet : CountObs(x) = 1)
        \/ Report("C16", "an undeclared use / repeated declaration / unused variable is not reported exactly once at its token", 0))
  /\ (T.obs.panic # "" \/ (\A i \in ObsNameIdx : \E x \in ExpSet \cup MaybeSet : Matches(i, x))
        \/ Report("C16", "a variable was reported although it is declared once and used", CHOOSE j \in ObsNameIdx : ~\E x \in ExpSet \cup MaybeSet : Matches(j, x)))
\* ---- C17: the same text checked and executed (variable values of the declared types)
StaticClasses == {"TypeError", "UnboundVariableErr", "UnboundFunctionErr", "BadArityErr", "InvalidTypeErr"}
ShapeClasses == {"InvalidUnboundedInSendAll", "InvalidAllotmentInSendAll"}
C17_Sound ==
  /\ Check("C17", "the checker panicked", T.obs.panic = "")
  /\ Check("C17", "no error reported, yet execution fails with a static-class error (type, unbound name, arity, unknown type)",
           (T.obs.panic = "" /\ T.nerr = 0 /\ T.typed) => T.run \notin StaticClasses)
  /\ Check("C17", "nothing reported at all, yet execution fails because of the shape of a send-all source",
           (T.obs.panic = "" /\ T.ndiag = 0 /\ T.typed /\ ~T.worldvar) => T.run \notin ShapeClasses)
\* ---- C19 (histories): every reply of the long-lived server equals the fresh server's on the latest text
C19_Histories == T.e = "lsp" =>
  \A i \in 1..Len(T.steps) :
     /\ (T.steps[i].panic = "" /\ T.steps[i].freshpanic = "") \/ Report("C19", "the language server panicked", i)
     /\ (T.steps[i].panic # "" \/ T.steps[i].freshpanic # "" \/ T.steps[i].same
           \/ Report("C19", "a reply or published diagnostic set differs from a fresh analysis of the latest text of that document (stale version or another document)", i))

\* ---- C19 (navigation): hover / definition at every position against the token table of the printing machine
\* expnodes[i] = <<kind, sl, sc, el, ec, name>>; probes[j] = <<ln, ch, hover present (0/1), words of the hover text, "", hsl, hsc, hel, hec, dsl, dsc, del, dec>>
\* (the wording of a hover is not pinned: it must mention the variable as $name and its declared type, resp. the function name)
NN == T.expnodes
InTok(nd, ln, ch) == nd[2] = ln /\ nd[4] = ln /\ nd[3] <= ch /\ ch < nd[5]
AtTokEnd(nd, ln, ch) == nd[4] = ln /\ ch = nd[5]
Targets == {i \in 1..Len(NN) : NN[i][1] \in {"Variable", "FnCallIdentifier"}}
DeclOf(i) == LET ds == {j \in 1..(i - 1) : NN[j][1] = "DeclName" /\ NN[j][6] = NN[i][6]} IN
             IF ds = {} THEN 0 ELSE CHOOSE j \in ds : \A k \in ds : j <= k
LeqPos(a, b, c, d) == a < c \/ (a = c /\ b <= d)
\* the call is the origin of a declaration iff its range lies within a VarDeclaration's
OriginCtx(i) == \E j \in 1..(i - 1) : NN[j][1] = "VarDeclaration" /\ LeqPos(NN[j][2], NN[j][3], NN[i][2], NN[i][3]) /\ LeqPos(NN[i][4], NN[i][5], NN[j][4], NN[j][5])
FnKnown(i) == IF OriginCtx(i) THEN NN[i][6] \in {"meta", "balance", "overdraft"} ELSE NN[i][6] \in {"set_tx_meta", "set_account_meta"}
\* a use inside the origin of the very declaration that introduces its name (the variable does not exist there yet:
\* whether the editor still links it to that declaration is left open)
InNode(d, x) == LeqPos(NN[d][2], NN[d][3], NN[x][2], NN[x][3]) /\ LeqPos(NN[x][4], NN[x][5], NN[d][4], NN[d][5])
SelfUse(i) == LET d == DeclOf(i) IN d # 0 /\ \E v \in 1..Len(NN) : NN[v][1] = "VarDeclaration" /\ InNode(v, d) /\ InNode(v, i)
NoHover(pr) == pr[3] = 0 /\ pr[6] = -1
Mentions(pr, w) == \E k \in 1..Len(pr[4]) : pr[4][k] = w
NoDef(pr) == pr[10] = -1
ProbeOk(pr) ==
  LET ln == pr[1]  ch == pr[2]
      hit == {i \in Targets : InTok(NN[i], ln, ch)}
      edge == {i \in Targets : AtTokEnd(NN[i], ln, ch)} IN
  IF hit = {} THEN (edge # {} \/ (NoHover(pr) /\ NoDef(pr)))          \* token-end positions are don't-care
  ELSE LET i == CHOOSE x \in hit : TRUE IN
       IF NN[i][1] = "Variable" THEN
          LET d == DeclOf(i) IN
          IF d = 0 THEN NoHover(pr) /\ NoDef(pr)
          ELSE IF SelfUse(i) /\ NoHover(pr) /\ NoDef(pr) THEN TRUE
          ELSE /\ pr[3] = 1 /\ Mentions(pr, "$" \o NN[i][6]) /\ Mentions(pr, NN[d - 1][6])
               /\ <<pr[6], pr[7], pr[8], pr[9]>> = <<NN[i][2], NN[i][3], NN[i][4], NN[i][5]>>
               /\ <<pr[10], pr[11], pr[12], pr[13]>> = <<NN[d][2], NN[d][3], NN[d][4], NN[d][5]>>
       ELSE IF FnKnown(i) THEN pr[3] = 1 /\ Mentions(pr, NN[i][6]) /\ <<pr[6], pr[7], pr[8], pr[9]>> = <<NN[i][2], NN[i][3], NN[i][4], NN[i][5]>> /\ NoDef(pr)
            ELSE NoHover(pr) /\ NoDef(pr)
C19_Navigation == T.e = "nav" =>
  /\ Check("C19", "the language server panicked", T.panic = "")
  /\ (T.panic # "" \/ (\A j \in 1..Len(T.probes) : ProbeOk(T.probes[j]))
        \/ Report("C19", "hover / definition at a position does not identify the variable (type, declaration range) or built-in under the cursor, or answers where nothing is", CHOOSE j \in 1..Len(T.probes) : ~ProbeOk(T.probes[j])))
Post == TLCGet(2) = 0
ASSUME TLCSet(2, 0)
=============================================================================
