----------------------------- MODULE FrontTrace -----------------------------
(***************************************************************************)
(* Judging the real front end against what the specification printed.      *)
(* Each line: the text printed by Syntax.tla, the expected pre-order node  *)
(* list with ranges (expnodes), the expected flattened tree (expflat), and *)
(* what the real parser returned on that text (obs).                       *)
(***************************************************************************)
EXTENDS Integers, Sequences, FiniteSets, TLC, Json, IOUtils
Trace == ndJsonDeserialize(IOEnv.TRACE)
N == Len(Trace)
VARIABLE l
Init == l \in 1..N
Next == UNCHANGED l
Spec == Init /\ [][Next]_l
T == Trace[l]
Report(prop, what, k) ==
  /\ TLCSet(2, TLCGet(2) + 1)
  /\ PrintT("VIOL " \o ToJson([prop |-> prop, id |-> T.n, line |-> l, what |-> what, at |-> k]))
Check(prop, what, cond) == cond \/ Report(prop, what, 0)
\* first index at which two sequences differ (0 = none)
FirstDiff(a, b) == IF a = b THEN 0
                   ELSE LET m == IF Len(a) < Len(b) THEN Len(a) ELSE Len(b)
                            ds == {i \in 1..m : a[i] # b[i]} IN
                        IF ds = {} THEN m + 1 ELSE CHOOSE i \in ds : \A j \in ds : i <= j
C15_Exact ==
  /\ Check("C15", "the parser panicked on a well-formed script", T.obs.panic = "")
  /\ Check("C15", "a well-formed script was reported with syntax errors", T.obs.panic # "" \/ T.obs.nerr = 0)
  /\ Check("C15", "the parsed tree has holes", T.obs.panic # "" \/ ~T.obs.holes)
  /\ (T.obs.panic # "" \/ T.obs.holes \/ T.obs.flat = T.expflat
        \/ Report("C15", "structure or literal values of the parsed tree differ from the written script (flattened tree, first difference)", FirstDiff(T.obs.flat, T.expflat)))
  /\ (T.obs.panic # "" \/ T.obs.holes \/ T.obs.nodes = T.expnodes
        \/ Report("C15", "node kinds or ranges differ from first-character .. just-past-last-token (pre-order node list, first difference)", FirstDiff(T.obs.nodes, T.expnodes)))
Post == TLCGet(2) = 0
ASSUME TLCSet(2, 0)
=============================================================================
