SPECIFICATION Spec
CONSTANTS Family = "ill"
 Scope = "quick"
 Emit = TRUE
INVARIANTS EmitInv
CHECK_DEADLOCK FALSE
