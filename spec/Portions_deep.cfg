SPECIFICATION PSpec
CONSTANTS Digits = {"0", "1", "5", "9"}
 MaxLenR = 3
 MaxLenP = 3
 MaxLenQ = 3
INVARIANTS C13_ValueSane PEmit
CHECK_DEADLOCK FALSE
