SPECIFICATION Spec
CONSTANTS MaxNum = 120
 MaxDen = 12
INVARIANTS C13_ReadBack
CHECK_DEADLOCK FALSE
