---- MODULE Machine_TTrace_1790842019 ----
EXTENDS Sequences, TLCExt, Toolbox, Naturals, TLC, Machine

_expression ==
    LET Machine_TEExpression == INSTANCE Machine_TEExpression
    IN Machine_TEExpression!expression
----

_trace ==
    LET Machine_TETrace == INSTANCE Machine_TETrace
    IN Machine_TETrace!trace
----

_inv ==
    ~(
        TLCGet("level") = Len(_TETrace)
        /\
        faultAt = (0)
        /\
        phase = ("done")
        /\
        cache = (<<>>)
        /\
        S = ([err |-> "MissingFundsErr", vis |-> <<>>, post |-> <<>>, tx |-> <<>>, am |-> <<>>])
        /\
        vi = (2)
        /\
        calls = (<<[q |-> <<<<"b", "USD">>>>, mode |-> "exact", kind |-> "bal"], [q |-> <<<<"a", "USD">>>>, mode |-> "sparse", kind |-> "bal"]>>)
        /\
        si = (1)
        /\
        pending = ({})
        /\
        env = ([m |-> [v |-> 4, t |-> "mon", a |-> "USD"]])
        /\
        prog = ([bal |-> [b |-> [USD |-> 4], a |-> [USD |-> 0]], vars |-> <<[name |-> "m", type |-> "monetary", origin |-> [k |-> "call", name |-> "balance", args |-> <<[k |-> "acct", v |-> "b"], [k |-> "asset", v |-> "USD"]>>], val |-> [t |-> "none"]]>>, stmts |-> <<[k |-> "send", all |-> FALSE, sent |-> [k |-> "var", name |-> "m"], src |-> [k |-> "seq", s |-> <<[k |-> "acct", e |-> [k |-> "acct", v |-> "b"]], [k |-> "acct", e |-> [k |-> "acct", v |-> "a"]]>>], dst |-> [k |-> "acct", e |-> [k |-> "acct", v |-> "d"]]]>>, flagovd |-> TRUE])
        /\
        status = ("MissingFundsErr")
    )
----

_init ==
    /\ S = _TETrace[1].S
    /\ env = _TETrace[1].env
    /\ faultAt = _TETrace[1].faultAt
    /\ calls = _TETrace[1].calls
    /\ pending = _TETrace[1].pending
    /\ phase = _TETrace[1].phase
    /\ prog = _TETrace[1].prog
    /\ si = _TETrace[1].si
    /\ cache = _TETrace[1].cache
    /\ status = _TETrace[1].status
    /\ vi = _TETrace[1].vi
----

_next ==
    /\ \E i,j \in DOMAIN _TETrace:
        /\ \/ /\ j = i + 1
              /\ i = TLCGet("level")
        /\ S  = _TETrace[i].S
        /\ S' = _TETrace[j].S
        /\ env  = _TETrace[i].env
        /\ env' = _TETrace[j].env
        /\ faultAt  = _TETrace[i].faultAt
        /\ faultAt' = _TETrace[j].faultAt
        /\ calls  = _TETrace[i].calls
        /\ calls' = _TETrace[j].calls
        /\ pending  = _TETrace[i].pending
        /\ pending' = _TETrace[j].pending
        /\ phase  = _TETrace[i].phase
        /\ phase' = _TETrace[j].phase
        /\ prog  = _TETrace[i].prog
        /\ prog' = _TETrace[j].prog
        /\ si  = _TETrace[i].si
        /\ si' = _TETrace[j].si
        /\ cache  = _TETrace[i].cache
        /\ cache' = _TETrace[j].cache
        /\ status  = _TETrace[i].status
        /\ status' = _TETrace[j].status
        /\ vi  = _TETrace[i].vi
        /\ vi' = _TETrace[j].vi

\* Uncomment the ASSUME below to write the states of the error trace
\* to the given file in Json format. Note that you can pass any tuple
\* to `JsonSerialize`. For example, a sub-sequence of _TETrace.
    \* ASSUME
    \*     LET J == INSTANCE Json
    \*         IN J!JsonSerialize("Machine_TTrace_1790842019.json", _TETrace)

=============================================================================

 Note that you can extract this module `Machine_TEExpression`
  to a dedicated file to reuse `expression` (the module in the 
  dedicated `Machine_TEExpression.tla` file takes precedence 
  over the module `Machine_TEExpression` below).

---- MODULE Machine_TEExpression ----
EXTENDS Sequences, TLCExt, Toolbox, Naturals, TLC, Machine

expression == 
    [
        \* To hide variables of the `Machine` spec from the error trace,
        \* remove the variables below.  The trace will be written in the order
        \* of the fields of this record.
        S |-> S
        ,env |-> env
        ,faultAt |-> faultAt
        ,calls |-> calls
        ,pending |-> pending
        ,phase |-> phase
        ,prog |-> prog
        ,si |-> si
        ,cache |-> cache
        ,status |-> status
        ,vi |-> vi
        
        \* Put additional constant-, state-, and action-level expressions here:
        \* ,_stateNumber |-> _TEPosition
        \* ,_SUnchanged |-> S = S'
        
        \* Format the `S` variable as Json value.
        \* ,_SJson |->
        \*     LET J == INSTANCE Json
        \*     IN J!ToJson(S)
        
        \* Lastly, you may build expressions over arbitrary sets of states by
        \* leveraging the _TETrace operator.  For example, this is how to
        \* count the number of times a spec variable changed up to the current
        \* state in the trace.
        \* ,_SModCount |->
        \*     LET F[s \in DOMAIN _TETrace] ==
        \*         IF s = 1 THEN 0
        \*         ELSE IF _TETrace[s].S # _TETrace[s-1].S
        \*             THEN 1 + F[s-1] ELSE F[s-1]
        \*     IN F[_TEPosition - 1]
    ]

=============================================================================



Parsing and semantic processing can take forever if the trace below is long.
 In this case, it is advised to uncomment the module below to deserialize the
 trace from a generated binary file.

\*
\*---- MODULE Machine_TETrace ----
\*EXTENDS IOUtils, TLC, Machine
\*
\*trace == IODeserialize("Machine_TTrace_1790842019.bin", TRUE)
\*
\*=============================================================================
\*

---- MODULE Machine_TETrace ----
EXTENDS TLC, Machine

trace == 
    <<
    ([faultAt |-> 0,phase |-> "pick",cache |-> <<>>,S |-> [err |-> "", vis |-> <<>>, post |-> <<>>, tx |-> <<>>, am |-> <<>>],vi |-> 1,calls |-> <<>>,si |-> 1,pending |-> {},env |-> <<>>,prog |-> [bal |-> <<>>, vars |-> <<>>, stmts |-> <<>>, flagovd |-> TRUE],status |-> ""]),
    ([faultAt |-> 0,phase |-> "vars",cache |-> <<>>,S |-> [err |-> "", vis |-> <<>>, post |-> <<>>, tx |-> <<>>, am |-> <<>>],vi |-> 1,calls |-> <<>>,si |-> 1,pending |-> {},env |-> <<>>,prog |-> [bal |-> [b |-> [USD |-> 4], a |-> [USD |-> 0]], vars |-> <<[name |-> "m", type |-> "monetary", origin |-> [k |-> "call", name |-> "balance", args |-> <<[k |-> "acct", v |-> "b"], [k |-> "asset", v |-> "USD"]>>], val |-> [t |-> "none"]]>>, stmts |-> <<[k |-> "send", all |-> FALSE, sent |-> [k |-> "var", name |-> "m"], src |-> [k |-> "seq", s |-> <<[k |-> "acct", e |-> [k |-> "acct", v |-> "b"]], [k |-> "acct", e |-> [k |-> "acct", v |-> "a"]]>>], dst |-> [k |-> "acct", e |-> [k |-> "acct", v |-> "d"]]]>>, flagovd |-> TRUE],status |-> ""]),
    ([faultAt |-> 0,phase |-> "vars",cache |-> (<<"b", "USD">> :> 4),S |-> [err |-> "", vis |-> <<>>, post |-> <<>>, tx |-> <<>>, am |-> <<>>],vi |-> 2,calls |-> <<[q |-> <<<<"b", "USD">>>>, mode |-> "exact", kind |-> "bal"]>>,si |-> 1,pending |-> {},env |-> [m |-> [v |-> 4, t |-> "mon", a |-> "USD"]],prog |-> [bal |-> [b |-> [USD |-> 4], a |-> [USD |-> 0]], vars |-> <<[name |-> "m", type |-> "monetary", origin |-> [k |-> "call", name |-> "balance", args |-> <<[k |-> "acct", v |-> "b"], [k |-> "asset", v |-> "USD"]>>], val |-> [t |-> "none"]]>>, stmts |-> <<[k |-> "send", all |-> FALSE, sent |-> [k |-> "var", name |-> "m"], src |-> [k |-> "seq", s |-> <<[k |-> "acct", e |-> [k |-> "acct", v |-> "b"]], [k |-> "acct", e |-> [k |-> "acct", v |-> "a"]]>>], dst |-> [k |-> "acct", e |-> [k |-> "acct", v |-> "d"]]]>>, flagovd |-> TRUE],status |-> ""]),
    ([faultAt |-> 0,phase |-> "exec",cache |-> <<>>,S |-> [err |-> "", vis |-> <<>>, post |-> <<>>, tx |-> <<>>, am |-> <<>>],vi |-> 2,calls |-> <<[q |-> <<<<"b", "USD">>>>, mode |-> "exact", kind |-> "bal"], [q |-> <<<<"a", "USD">>>>, mode |-> "sparse", kind |-> "bal"]>>,si |-> 1,pending |-> {},env |-> [m |-> [v |-> 4, t |-> "mon", a |-> "USD"]],prog |-> [bal |-> [b |-> [USD |-> 4], a |-> [USD |-> 0]], vars |-> <<[name |-> "m", type |-> "monetary", origin |-> [k |-> "call", name |-> "balance", args |-> <<[k |-> "acct", v |-> "b"], [k |-> "asset", v |-> "USD"]>>], val |-> [t |-> "none"]]>>, stmts |-> <<[k |-> "send", all |-> FALSE, sent |-> [k |-> "var", name |-> "m"], src |-> [k |-> "seq", s |-> <<[k |-> "acct", e |-> [k |-> "acct", v |-> "b"]], [k |-> "acct", e |-> [k |-> "acct", v |-> "a"]]>>], dst |-> [k |-> "acct", e |-> [k |-> "acct", v |-> "d"]]]>>, flagovd |-> TRUE],status |-> ""]),
    ([faultAt |-> 0,phase |-> "done",cache |-> <<>>,S |-> [err |-> "MissingFundsErr", vis |-> <<>>, post |-> <<>>, tx |-> <<>>, am |-> <<>>],vi |-> 2,calls |-> <<[q |-> <<<<"b", "USD">>>>, mode |-> "exact", kind |-> "bal"], [q |-> <<<<"a", "USD">>>>, mode |-> "sparse", kind |-> "bal"]>>,si |-> 1,pending |-> {},env |-> [m |-> [v |-> 4, t |-> "mon", a |-> "USD"]],prog |-> [bal |-> [b |-> [USD |-> 4], a |-> [USD |-> 0]], vars |-> <<[name |-> "m", type |-> "monetary", origin |-> [k |-> "call", name |-> "balance", args |-> <<[k |-> "acct", v |-> "b"], [k |-> "asset", v |-> "USD"]>>], val |-> [t |-> "none"]]>>, stmts |-> <<[k |-> "send", all |-> FALSE, sent |-> [k |-> "var", name |-> "m"], src |-> [k |-> "seq", s |-> <<[k |-> "acct", e |-> [k |-> "acct", v |-> "b"]], [k |-> "acct", e |-> [k |-> "acct", v |-> "a"]]>>], dst |-> [k |-> "acct", e |-> [k |-> "acct", v |-> "d"]]]>>, flagovd |-> TRUE],status |-> "MissingFundsErr"])
    >>
----


=============================================================================

---- CONFIG Machine_TTrace_1790842019 ----
CONSTANTS
    Merge = "replace"
    Faults = FALSE
    Emit = FALSE
    Scope = "quick"

INVARIANT
    _inv

CHECK_DEADLOCK
    \* CHECK_DEADLOCK off because of PROPERTY or INVARIANT above.
    FALSE

INIT
    _init

NEXT
    _next

CONSTANT
    _TETrace <- _trace

ALIAS
    _expression
=============================================================================
\* Generated on Thu Oct 01 08:07:08 UTC 2026