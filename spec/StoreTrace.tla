----------------------------- MODULE StoreTrace -----------------------------
(***************************************************************************)
(* C10 / C12 (store part): groups of real executions of ONE program on ONE *)
(* store content, differing only in how the store answered (reply shape    *)
(* per call, chosen by the environment of Machine.tla / StoreEnv.tla) and  *)
(* in the call at which it failed.                                         *)
(*  C10  all fault-free runs of a group have the same outcome; the balance *)
(*       of world is never requested.                                      *)
(*  C12  a run whose k-th store call failed ends in the matching           *)
(*       query-error class, carries the store's message and returns        *)
(*       nothing.                                                          *)
(***************************************************************************)
EXTENDS Sem, Json, IOUtils
Trace == ndJsonDeserialize(IOEnv.TRACE)
N == Len(Trace)
VARIABLE l
Init == l \in 1..N
Next == UNCHANGED l
Spec == Init /\ [][Next]_l
T == Trace[l]
Report(prop, what, i) ==
  /\ TLCSet(2, TLCGet(2) + 1)
  /\ PrintT("VIOL " \o ToJson([prop |-> prop, id |-> T.id, line |-> l, what |-> what, run |-> i]))
R == T.runs
KnownAll == {E_MissingFunds, E_Type, E_UnboundVar, E_UnboundFn, E_BadArity, E_InvalidType, E_MissingVar, E_NegBalance, E_NegAmount, E_AllotInSendAll, E_UnbInSendAll,
             E_Currency, E_AllotSum, E_MetaNotFound, E_BadPortion, E_BadMonetary, E_BadNumber, E_Experimental, E_BadAccount, E_QueryBalance, E_QueryMeta}
SameRec(f, g) == DOMAIN f = DOMAIN g /\ \A k \in DOMAIN f : f[k] = g[k]
SameAcct(f, g) == DOMAIN f = DOMAIN g /\ \A a \in DOMAIN f : SameRec(f[a], g[a])
SameOutcome(x, y) == /\ x.st = y.st /\ x.post = y.post /\ SameRec(x.txmeta, y.txmeta) /\ SameAcct(x.acctmeta, y.acctmeta)
Clean == {i \in 1..Len(R) : ~R[i].faulted}
Ref == IF Clean = {} THEN 0 ELSE CHOOSE i \in Clean : \A j \in Clean : i <= j
C10_Group ==
  /\ \A i \in Clean : SameOutcome(R[i], R[Ref]) \/ Report("C10", "outcome depends on how the store answers", i)
  /\ \A i \in 1..Len(R) : ~R[i].world \/ Report("C10", "the balance of world was requested", i)
C12_Faults ==
  /\ \A i \in 1..Len(R) : R[i].faulted =>
        \/ ( /\ (R[i].st = (IF R[i].failkind = "bal" THEN E_QueryBalance ELSE E_QueryMeta)
                 \/ (R[i].st \notin {"ok", "panic"} /\ R[i].st \notin KnownAll))      \* a renamed error type is not a wrong one
             /\ R[i].msgok /\ ~R[i].leak /\ R[i].post = <<>> )
        \/ Report("C12", "a failed store call did not surface as the matching query error carrying the store's message with an empty result", i)
  /\ \A i \in 1..Len(R) : (R[i].st # "panic" /\ (R[i].st # "ok" => (~R[i].leak /\ R[i].post = <<>>))) \/ Report("C12", "panic or non-atomic failure", i)
Post == TLCGet(2) = 0
ASSUME TLCSet(2, 0)
=============================================================================
