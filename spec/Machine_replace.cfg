SPECIFICATION Spec
CONSTANTS Merge = "replace"
 Faults = FALSE
 Emit = FALSE
 Scope = "quick"
INVARIANTS C10_StoreIndependent

CHECK_DEADLOCK FALSE
