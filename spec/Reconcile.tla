----------------------------- MODULE Reconcile -----------------------------
(***************************************************************************)
(* The pairing of senders and receivers as the small-step machine of       *)
(* internal/interpreter/reconciler.go (one action per loop iteration; the  *)
(* kept pseudo-receiver withholds funds from as many pending senders as    *)
(* needed, one sender per step), refined against the declarative           *)
(* first-come-first-served pairing Sem!Pair (C07).                         *)
(***************************************************************************)
EXTENDS Sem, Json
CONSTANTS MaxLen, MaxAmt, Emit    \* Emit: print every initial state as JSON (behaviour generation for the real Reconcile)

SndNames == {"a", "b"}
RcvNames == {"x", "y", KEPT}
Lists(names, k) == UNION {[1..j -> {<<nm, m>> : nm \in names, m \in 1..MaxAmt}] : j \in 1..k}

VARIABLES snd0, rcv0,   \* the inputs
          snd, rcv,     \* pending senders / receivers (head = next)
          post,         \* postings emitted so far <<src, dst, amt>>
          kept,         \* amount still to withhold while handling a kept receiver
          pc
vars == <<snd0, rcv0, snd, rcv, post, kept, pc>>

Init == /\ snd0 \in Lists(SndNames, MaxLen) /\ rcv0 \in Lists(RcvNames, MaxLen)
        /\ SumPairs(snd0) = SumPairs(rcv0)
        /\ snd = snd0 /\ rcv = rcv0 /\ post = <<>> /\ kept = 0 /\ pc = "loop"

Emitting(p) == Append(post, p)
\* merge with the previous posting when source and destination coincide
AddPosting(s, d, m) ==
  IF post # <<>> /\ post[Len(post)][1] = s /\ post[Len(post)][2] = d
  THEN [post EXCEPT ![Len(post)] = <<s, d, @[3] + m>>]
  ELSE Append(post, <<s, d, m>>)

Done == /\ pc = "loop" /\ rcv = <<>>
        /\ pc' = "done" /\ UNCHANGED <<snd0, rcv0, snd, rcv, post, kept>>
PopKept == /\ pc = "loop" /\ rcv # <<>> /\ Head(rcv)[1] = KEPT
           /\ kept' = Head(rcv)[2] /\ rcv' = Tail(rcv) /\ pc' = "kept"
           /\ UNCHANGED <<snd0, rcv0, snd, post>>
\* withhold from the next sender in line
Withhold == /\ pc = "kept"
            /\ IF kept = 0 \/ snd = <<>> THEN pc' = "loop" /\ kept' = 0 /\ UNCHANGED snd
               ELSE LET s == Head(snd) IN
                    IF s[2] > kept THEN snd' = << <<s[1], s[2] - kept>> >> \o Tail(snd) /\ kept' = 0 /\ pc' = "loop"
                    ELSE snd' = Tail(snd) /\ kept' = kept - s[2] /\ pc' = "kept"
            /\ UNCHANGED <<snd0, rcv0, rcv, post>>
NoSender == /\ pc = "loop" /\ rcv # <<>> /\ Head(rcv)[1] # KEPT /\ snd = <<>>
            /\ pc' = "done" /\ UNCHANGED <<snd0, rcv0, snd, rcv, post, kept>>
Match == /\ pc = "loop" /\ rcv # <<>> /\ Head(rcv)[1] # KEPT /\ snd # <<>>
         /\ LET s == Head(snd)  r == Head(rcv) IN
            /\ CASE s[2] = r[2] -> snd' = Tail(snd) /\ rcv' = Tail(rcv) /\ post' = AddPosting(s[1], r[1], s[2])
                 [] s[2] < r[2] -> snd' = Tail(snd) /\ rcv' = << <<r[1], r[2] - s[2]>> >> \o Tail(rcv) /\ post' = AddPosting(s[1], r[1], s[2])
                 [] s[2] > r[2] -> snd' = << <<s[1], s[2] - r[2]>> >> \o Tail(snd) /\ rcv' = Tail(rcv) /\ post' = AddPosting(s[1], r[1], r[2])
         /\ UNCHANGED <<snd0, rcv0, kept, pc>>
Next == Done \/ PopKept \/ Withhold \/ NoSender \/ Match
Spec == Init /\ [][Next]_vars

\* ---- C07 ----
P4(ps) == [i \in 1..Len(ps) |-> <<ps[i][1], ps[i][2], ps[i][3], "A">>]
Expected == P4(Pair(snd0, rcv0, <<>>))
PendingRcv == IF pc = "kept" /\ kept > 0 THEN << <<KEPT, kept>> >> \o rcv ELSE rcv
SameFlow(p, q) == \A k \in FlowPairs(p) \cup FlowPairs(q) : FlowSum(p, k[1], k[2]) = FlowSum(q, k[1], k[2])
\* inductive form of the refinement: what was emitted plus the pairing of what is pending is the pairing of the inputs
C07_Refines == SameFlow(P4(post) \o P4(Pair(snd, PendingRcv, <<>>)), Expected)
C07_Final == pc = "done" =>
   /\ SameFlow(P4(post), Expected)
   /\ SumAmt(P4(post)) = SumPairs(snd0) - KeptOf(rcv0)          \* kept is debited from nobody
   /\ \A i \in 1..Len(post) : post[i][3] > 0 /\ post[i][2] # KEPT
\* kept funds are withheld from the earliest pending sources: debit of every sender = its amount minus
\* the part of it that the declarative pairing assigns to kept
RECURSIVE KeptFrom(_,_,_)
KeptFrom(s, r, a) == IF r = <<>> \/ s = <<>> THEN 0
  ELSE LET x == Head(s)  y == Head(r)  m == Min(x[2], y[2])
           s2 == IF x[2] = m THEN Tail(s) ELSE << <<x[1], x[2]-m>> >> \o Tail(s)
           r2 == IF y[2] = m THEN Tail(r) ELSE << <<y[1], y[2]-m>> >> \o Tail(r)
       IN (IF y[1] = KEPT /\ x[1] = a THEN m ELSE 0) + KeptFrom(s2, r2, a)
RECURSIVE GivenBy(_,_)
GivenBy(s, a) == IF s = <<>> THEN 0 ELSE (IF Head(s)[1] = a THEN Head(s)[2] ELSE 0) + GivenBy(Tail(s), a)
C07_KeptStays == pc = "done" => \A a \in SndNames : SumWhere(P4(post), 1, a) = GivenBy(snd0, a) - KeptFrom(snd0, rcv0, a)
\* termination: a variant that strictly decreases
Variant == 2 * (SumPairs(snd) + SumPairs(rcv) + kept) + 3 * Len(rcv) + (IF pc = "kept" THEN 1 ELSE 0) + (IF pc = "done" THEN 0 ELSE 1)
C07_Terminates == [][Variant' < Variant]_vars
\* behaviour generation: one line per input pair
EmitInv == (Emit /\ pc = "loop" /\ post = <<>> /\ snd = snd0 /\ rcv = rcv0 /\ kept = 0) =>
             PrintT("GEN " \o ToJson([snd |-> snd0, rcv |-> rcv0]))
=============================================================================
