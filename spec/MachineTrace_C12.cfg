SPECIFICATION Spec
INVARIANTS C12_Typed
POSTCONDITION Post
CHECK_DEADLOCK FALSE
