SPECIFICATION Spec
INVARIANTS C15_Tokens
POSTCONDITION Post
CHECK_DEADLOCK FALSE
