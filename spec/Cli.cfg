SPECIFICATION Spec
INVARIANTS C20_LastWins EmitInv
CHECK_DEADLOCK FALSE
