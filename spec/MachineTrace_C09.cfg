SPECIFICATION Spec
INVARIANTS Meta_Final
POSTCONDITION Post
CHECK_DEADLOCK FALSE
