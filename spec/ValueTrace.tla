----------------------------- MODULE ValueTrace -----------------------------
(***************************************************************************)
(* C13 on real executions.                                                 *)
(*  portion lines: a spelling enumerated by Portions.tla with its exact    *)
(*    value pn/pd, and what the real code made of it as a literal and as   *)
(*    a portion variable - the rendered value rn/rd (compared by cross-    *)
(*    multiplication, so reduction is not trusted either) and the credits  *)
(*    of a split of the total pd (no rounding involved).                   *)
(*  rt lines: a value written to account metadata by one script (am1),     *)
(*    read back through a metadata-backed variable of the same type by a   *)
(*    second script and written again (am2), passed as a plain variable    *)
(*    (am3), and the transaction-metadata texts (tx*, txj1 = JSON).        *)
(*    Values are only moved, so texts are compared for equality.           *)
(***************************************************************************)
EXTENDS Integers, Sequences, TLC, Json, IOUtils
Trace == ndJsonDeserialize(IOEnv.TRACE)
N == Len(Trace)
VARIABLE l
Init == l \in 1..N
Next == UNCHANGED l
Spec == Init /\ [][Next]_l
T == Trace[l]
Report(what) ==
  /\ TLCSet(2, TLCGet(2) + 1)
  /\ PrintT("VIOL " \o ToJson([prop |-> "C13", id |-> T.n, line |-> l, what |-> what]))
Check(what, cond) == cond \/ Report(what)
\* the rendering format of a portion is not pinned: a rendering that is not "a/b" is left to the split channel and the round trip
MetaOk(c) == c.st = "unreadable-rendering" \/ (c.st = "ok" /\ c.rd > 0 /\ c.rn * T.pd = T.pn * c.rd)
SplitOk(c) == c.st = "ok" /\ c.a = T.pn /\ c.b = T.pd - T.pn
C13_Portions == T.e = "portion" =>
  /\ Check("portion literal does not denote its base-ten fraction (rendered value)", MetaOk(T.litmeta))
  /\ Check("portion variable text does not denote the same fraction as the literal (rendered value)", MetaOk(T.varmeta))
  /\ Check("portion literal does not denote its base-ten fraction (split of a total)", SplitOk(T.litsplit))
  /\ Check("portion variable text does not denote the same fraction as the literal (split of a total)", SplitOk(T.varsplit))
  /\ Check("a portion variable used in a split and then rendered (and split again) in ONE script does not keep its value",
           ("combometa" \in DOMAIN T) => (MetaOk(T.combometa) /\ T.combosplit.st = "ok" /\ T.combosplit.a = 2 * T.pn /\ T.combosplit.b = 2 * (T.pd - T.pn)))
  /\ Check("the same value spelled with long numerals (1 to 40 more digits) is rejected or denotes another fraction",
           \A i \in 1..Len(T.long) : (T.long[i].litst = "ok" \/ T.long[i].litst = "unreadable-rendering") /\ T.long[i].lit = T.litmeta.txt
                                      /\ (T.long[i].varst = "ok" \/ T.long[i].varst = "unreadable-rendering") /\ T.long[i].var = T.litmeta.txt)
C13_RoundTrip == T.e = "rt" =>
  /\ Check("a value of the type's grammar was rejected when written", T.st1 = "ok")
  /\ Check("the stored text was rejected when read back through a metadata-backed variable", T.st1 = "ok" => T.st2 = "ok")
  /\ Check("the stored text was rejected when passed as a plain variable", T.st1 = "ok" => T.st3 = "ok")
  /\ Check("the value read back from metadata differs from the value written", (T.st1 = "ok" /\ T.st2 = "ok") => (T.am2 = T.am1 /\ T.tx2 = T.tx1))
  /\ Check("the value passed as a plain variable differs from the value written", (T.st1 = "ok" /\ T.st3 = "ok") => (T.am3 = T.am1 /\ T.tx3 = T.tx1))
  /\ Check("transaction metadata does not serialise to the account-metadata text", T.st1 = "ok" => (T.tx1 = T.am1 /\ T.txj1 = T.am1))
  /\ Check("two different values of one type are stored as the same text (it cannot be read back as both)",
           (T.st1 = "ok" /\ "sibam" \in DOMAIN T) => \A i \in 1..Len(T.sibam) : T.sibam[i] # T.am1)
\* ---- scaling lift (C06 beyond TLC's integers): an exact split multiplied by a huge factor U gives U times the shares
C06_Scaled == T.e = "scale" =>
  \/ (T.st = "ok" /\ T.equal)
  \/ (TLCSet(2, TLCGet(2) + 1) /\ PrintT("VIOL " \o ToJson([prop |-> "C06", id |-> T.n, line |-> l, what |-> "an exact split scaled by a factor beyond 2^31 / 2^64 does not give the scaled shares"])))
\* ... and whatever the shares are, every posting of the scaled run is a real transfer (C02 beyond TLC's integers)
C02_ScaledPositive == (T.e = "scale" /\ "positive" \in DOMAIN T) =>
  \/ T.positive
  \/ (TLCSet(2, TLCGet(2) + 1) /\ PrintT("VIOL " \o ToJson([prop |-> "C02", id |-> T.n, line |-> l, what |-> "a split of an amount beyond 2^31 / 2^63 yields a zero or negative posting, a posting in another asset or without a real account"])))
\* ... and the postings add up to U times what the small run moved (= its amount minus what is kept, judged by MachineTrace), or there are none (C03)
C03_ScaledExact == (T.e = "scale" /\ "sumok" \in DOMAIN T) =>
  \/ T.sumok
  \/ (TLCSet(2, TLCGet(2) + 1) /\ PrintT("VIOL " \o ToJson([prop |-> "C03", id |-> T.n, line |-> l, what |-> "a send of an amount beyond 2^31 / 2^63 through an allotment does not move exactly the amount (minus what is kept), or postings were returned with a failure"])))
\* generic scaling lift for sends without allotments (every operation is min / max / + / -, hence positively homogeneous):
\* all numbers of a TLC-validated small case multiplied by U give U times the postings and the same outcome class
Scaled == (T.e = "scale" /\ "prop" \in DOMAIN T) =>
  \/ T.equal
  \/ (TLCSet(2, TLCGet(2) + 1) /\ PrintT("VIOL " \o ToJson([prop |-> T.prop, id |-> T.n, line |-> l, what |-> "amounts beyond 2^31 / 2^64: a case scaled by a huge factor does not give the scaled postings / the same outcome"])))
\* ... and a variable read back at the end of the scaled script still holds the (huge) value it was given
ScaledVars == (T.e = "scale" /\ "given" \in DOMAIN T) =>
  \/ (\A k \in DOMAIN T.given : T.read[k] = T.given[k])
  \/ (TLCSet(2, TLCGet(2) + 1) /\ PrintT("VIOL " \o ToJson([prop |-> T.prop, id |-> T.n, line |-> l, what |-> "amounts beyond 2^64: a variable read back at the end of the script no longer holds the value it was given (a statement changed it)"])))
Post == TLCGet(2) = 0
ASSUME TLCSet(2, 0)
=============================================================================
