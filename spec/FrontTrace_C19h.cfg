SPECIFICATION Spec
INVARIANTS C19_Histories
POSTCONDITION Post
CHECK_DEADLOCK FALSE
