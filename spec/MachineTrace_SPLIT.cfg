SPECIFICATION Spec
INVARIANTS EmitSplits C08_SaveStep
POSTCONDITION Post
CHECK_DEADLOCK FALSE
