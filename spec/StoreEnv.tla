------------------------------ MODULE StoreEnv ------------------------------
(* The store as environment of a run: at every call it independently chooses a reply shape.
   TLC enumerates every sequence of choices up to MaxCalls (BFS); each is printed as one JSON
   line and applied by the harness's scripted store to random programs (C10). *)
EXTENDS Sequences, Naturals, TLC, Json
CONSTANT MaxCalls
Modes == {"exact", "sparse", "superset", "static"}
VARIABLE h
Init == h = <<>>
Next == Len(h) < MaxCalls /\ \E m \in Modes : h' = Append(h, m)
Spec == Init /\ [][Next]_h
EmitInv == h # <<>> => PrintT("GEN " \o ToJson(h))
=============================================================================
