SPECIFICATION Spec
INVARIANTS C11_Pure
POSTCONDITION Post
CHECK_DEADLOCK FALSE
