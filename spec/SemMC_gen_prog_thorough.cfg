SPECIFICATION Spec
CONSTANTS Family = "prog"
 Scope = "quick"
 Emit = TRUE
INVARIANTS EmitInv
CHECK_DEADLOCK FALSE
