SPECIFICATION Spec
INVARIANTS C03_ScaledExact
POSTCONDITION Post
CHECK_DEADLOCK FALSE
