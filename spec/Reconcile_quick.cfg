SPECIFICATION Spec
CONSTANTS MaxLen = 3
 MaxAmt = 2
 Emit = FALSE
INVARIANTS C07_Refines C07_Final C07_KeptStays
PROPERTIES C07_Terminates
CHECK_DEADLOCK FALSE
