SPECIFICATION Spec
INVARIANTS C18_Survives
POSTCONDITION Post
CHECK_DEADLOCK FALSE
