SPECIFICATION Spec
INVARIANTS C17_Sound
POSTCONDITION Post
CHECK_DEADLOCK FALSE
