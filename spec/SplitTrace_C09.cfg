SPECIFICATION Spec
INVARIANTS C09_Split
POSTCONDITION Post
CHECK_DEADLOCK FALSE
