------------------------------- MODULE Printer -------------------------------
(***************************************************************************)
(* From a script tree to its tokens (constant-level part of the concrete   *)
(* syntax, shared by Syntax.tla and its edit mode): every node records its *)
(* first and last token; FProg flattens a tree to a list of strings (kinds *)
(* and literal values, portions reduced) for comparison with the real      *)
(* parser's tree.                                                          *)
(***************************************************************************)
EXTENDS Lex, Static

\* ---- token/node algebra -------------------------------------------------
Empty == [toks |-> <<>>, nodes |-> <<>>]
Tok(lex) == [toks |-> <<lex>>, nodes |-> <<>>]
Shift(ns, k) == [i \in 1..Len(ns) |-> [ns[i] EXCEPT !.f = @ + k, !.l = @ + k]]
Cat2(a, b) == [toks |-> a.toks \o b.toks, nodes |-> a.nodes \o Shift(b.nodes, Len(a.toks))]
RECURSIVE Cat(_)
Cat(ps) == IF ps = <<>> THEN Empty ELSE Cat2(Head(ps), Cat(Tail(ps)))
\* a node: kind, first/last token, and a name for the nodes that carry one (variables, functions, types)
NodeN(kind, name, r) == [toks |-> r.toks, nodes |-> <<[kind |-> kind, name |-> name, f |-> 1, l |-> Len(r.toks)]>> \o r.nodes]
Node(kind, r) == NodeN(kind, "", r)

\* ---- lexemes ---------------------------------------------------------------
NumLex(n) == IF n < 0 THEN "-" \o ToString(0 - n) ELSE ToString(n)
\* a number literal may carry its spelling (leading zeros are legal and still base ten)
NumLexOf(e) == IF "lex" \in DOMAIN e THEN e.lex ELSE NumLex(e.v)
NumValOf(e) == IF "lex" \in DOMAIN e
               THEN (IF SubSeq(e.lex, 1, 1) = "-" THEN 0 - NatOf(SubSeq(e.lex, 2, Len(e.lex)), 1, 0) ELSE NatOf(e.lex, 1, 0))
               ELSE e.v
PortionLex(e) == IF "lex" \in DOMAIN e THEN e.lex ELSE ToString(e.n) \o "/" \o ToString(e.d)

\* ---- printers -----------------------------------------------------------
RECURSIVE PE(_), PS(_), PD(_), PK(_), PEs(_,_), PSs(_,_), PSI(_,_), PDC(_,_), PDI(_,_)
PE(e) ==
  CASE e.k = "var"   -> NodeN("Variable", e.name, Tok("$" \o e.name))
    [] e.k = "acct"  -> Node("AccountLiteral", Tok("@" \o e.v))
    [] e.k = "asset" -> Node("AssetLiteral", Tok(e.v))
    [] e.k = "str"   -> Node("StringLiteral", Tok("\"" \o e.v \o "\""))
    [] e.k = "num"   -> Node("NumberLiteral", Tok(NumLexOf(e)))
    [] e.k = "portion" -> Node("RatioLiteral", Tok(PortionLex(e)))
    [] e.k = "mon"   -> Node("MonetaryLiteral", Cat(<<Tok("["), PE(e.asset), PE(e.amt), Tok("]")>>))
    [] e.k = "infix" -> Node("BinaryInfix", Cat(<<PE(e.l), Tok(e.op), PE(e.r)>>))
PA(p) == CASE p.k = "remaining" -> Node("RemainingAllotment", Tok("remaining")) [] OTHER -> PE(p)
PEs(es, i) == IF i > Len(es) THEN Empty ELSE Cat(<<IF i > 1 THEN Tok(",") ELSE Empty, PE(es[i]), PEs(es, i+1)>>)
PS(s) ==
  CASE s.k = "acct"  -> PE(s.e)
    [] s.k = "ovd"   -> Node("SourceOverdraft", Cat(<<PE(s.e), Tok("allowing"), Tok("overdraft"), Tok("up"), Tok("to"), PE(s.b)>>))
    [] s.k = "ovdu"  -> Node("SourceOverdraft", Cat(<<PE(s.e), Tok("allowing"), Tok("unbounded"), Tok("overdraft")>>))
    [] s.k = "seq"   -> Node("SourceInorder", Cat(<<Tok("{"), PSs(s.s, 1), Tok("}")>>))
    [] s.k = "cap"   -> Node("SourceCapped", Cat(<<Tok("max"), PE(s.c), Tok("from"), PS(s.s)>>))
    [] s.k = "allot" -> Node("SourceAllotment", Cat(<<Tok("{"), PSI(s.it, 1), Tok("}")>>))
PSs(ss, i) == IF i > Len(ss) THEN Empty ELSE Cat2(PS(ss[i]), PSs(ss, i+1))
PSI(it, i) == IF i > Len(it) THEN Empty
              ELSE Cat2(Node("SourceAllotmentItem", Cat(<<PA(it[i].p), Tok("from"), PS(it[i].s)>>)), PSI(it, i+1))
PK(k) == IF k.k = "kept" THEN Node("DestinationKept", Tok("kept")) ELSE Cat2(Tok("to"), PD(k))
PD(d) ==
  CASE d.k = "acct" -> PE(d.e)
    [] d.k = "ord"  -> Node("DestinationInorder", Cat(<<Tok("{"), PDC(d.cl, 1), Tok("remaining"), PK(d.rem), Tok("}")>>))
    [] d.k = "allot" -> Node("DestinationAllotment", Cat(<<Tok("{"), PDI(d.it, 1), Tok("}")>>))
PDC(cl, i) == IF i > Len(cl) THEN Empty
              ELSE Cat2(Node("DestinationInorderClause", Cat(<<Tok("max"), PE(cl[i].c), PK(cl[i].to)>>)), PDC(cl, i+1))
PDI(it, i) == IF i > Len(it) THEN Empty
              ELSE Cat2(Node("DestinationAllotmentItem", Cat(<<PA(it[i].p), PK(it[i].to)>>)), PDI(it, i+1))
PSent(st) == IF st.all THEN Node("SentValueAll", Cat(<<Tok("["), PE(st.sent), Tok("*"), Tok("]")>>))
             ELSE Node("SentValueLiteral", PE(st.sent))
PCall(c) == Node("FnCall", Cat(<<NodeN("FnCallIdentifier", c.name, Tok(c.name)), Tok("("), PEs(c.args, 1), Tok(")")>>))
PStmt(st) ==
  CASE st.k = "send" -> Node("SendStatement", Cat(<<Tok("send"), PSent(st), Tok("("), Tok("source"), Tok("="), PS(st.src),
                                                    Tok("destination"), Tok("="), PD(st.dst), Tok(")")>>))
    [] st.k = "save" -> Node("SaveStatement", Cat(<<Tok("save"), PSent(st), Tok("from"), PE(st.e)>>))
    [] st.k = "call" -> PCall(st)
PDecl(d) == Node("VarDeclaration", Cat(<<NodeN("TypeDecl", d.type, Tok(d.type)), NodeN("DeclName", d.name, Tok("$" \o d.name)),
                                         IF d.origin.k = "none" THEN Empty ELSE Cat2(Tok("="), PCall(d.origin))>>))
RECURSIVE PDecls(_,_), PStmts(_,_)
PDecls(ds, i) == IF i > Len(ds) THEN Empty ELSE Cat2(PDecl(ds[i]), PDecls(ds, i+1))
PStmts(ss, i) == IF i > Len(ss) THEN Empty ELSE Cat2(PStmt(ss[i]), PStmts(ss, i+1))
PProg(p) == Cat(<<IF p.vars = <<>> /\ ~("emptyvars" \in DOMAIN p /\ p.emptyvars) THEN Empty ELSE Cat(<<Tok("vars"), Tok("{"), PDecls(p.vars, 1), Tok("}")>>),
                  PStmts(p.stmts, 1)>>)

\* ---- the tree flattened to a list of strings (kinds and literal values, portions reduced) ----
RECURSIVE GcdS(_,_)
GcdS(a, b) == IF b = 0 THEN a ELSE GcdS(b, a % b)
RECURSIVE FE(_), FS(_), FD(_), FList(_,_,_)
FE(e) == CASE e.k = "var" -> <<"var", e.name>>
           [] e.k \in {"acct", "asset", "str"} -> <<e.k, e.v>>
           \* (a numeral beyond TLC's integers: sign and digits as written, without leading zeros)
           [] e.k = "num" /\ "lex" \in DOMAIN e /\ Len(e.lex) > 9 ->
                <<"numbig", IF SubSeq(e.lex, 1, 1) = "-" THEN "-" \o DropZeros(SubSeq(e.lex, 2, Len(e.lex))) ELSE DropZeros(e.lex)>>
           [] e.k = "num" -> <<"num", ToString(NumValOf(e))>>
           \* (a ratio with a numeral beyond TLC's integers: both parts as written, without leading zeros, unreduced)
           [] e.k = "portion" /\ IsLongRatio(PortionLex(e)) -> <<"portionbig", RatioNum(PortionLex(e)), RatioDen(PortionLex(e))>>
           [] e.k = "portion" -> LET v == PortionValue(PortionLex(e))  g == GcdS(v.n, v.d) IN
                                 IF g = 0 THEN <<"portion", "0", "0">> ELSE <<"portion", ToString(v.n \div g), ToString(v.d \div g)>>
           [] e.k = "remaining" -> <<"remaining">>
           [] e.k = "mon" -> <<"mon(">> \o FE(e.asset) \o FE(e.amt) \o <<")">>
           [] e.k = "infix" -> <<"infix(", e.op>> \o FE(e.l) \o FE(e.r) \o <<")">>
\* op: 1 = FS, 2 = FD, 3 = FE, 4 = source item, 5 = dest item, 6 = clause
FList(xs, i, op) == IF i > Len(xs) THEN <<>>
   ELSE (CASE op = 1 -> FS(xs[i]) [] op = 2 -> FD(xs[i]) [] op = 3 -> FE(xs[i])
           [] op = 4 -> <<"item(">> \o FE(xs[i].p) \o FS(xs[i].s) \o <<")">>
           [] op = 5 -> <<"item(">> \o FE(xs[i].p) \o FD(xs[i].to) \o <<")">>
           [] op = 6 -> <<"clause(">> \o FE(xs[i].c) \o FD(xs[i].to) \o <<")">>) \o FList(xs, i + 1, op)
FS(s) == CASE s.k = "acct" -> <<"src(">> \o FE(s.e) \o <<")">>
           [] s.k = "ovd" -> <<"ovd(">> \o FE(s.e) \o FE(s.b) \o <<")">>
           [] s.k = "ovdu" -> <<"ovdu(">> \o FE(s.e) \o <<")">>
           [] s.k = "seq" -> <<"seq(">> \o FList(s.s, 1, 1) \o <<")">>
           [] s.k = "cap" -> <<"cap(">> \o FE(s.c) \o FS(s.s) \o <<")">>
           [] s.k = "allot" -> <<"sallot(">> \o FList(s.it, 1, 4) \o <<")">>
FD(d) == CASE d.k = "kept" -> <<"kept">>
           [] d.k = "acct" -> <<"dst(">> \o FE(d.e) \o <<")">>
           [] d.k = "ord" -> <<"ord(">> \o FList(d.cl, 1, 6) \o <<"rem">> \o FD(d.rem) \o <<")">>
           [] d.k = "allot" -> <<"dallot(">> \o FList(d.it, 1, 5) \o <<")">>
FStmt(st) == CASE st.k = "send" -> <<"send(", IF st.all THEN "all" ELSE "amount">> \o FE(st.sent) \o FS(st.src) \o FD(st.dst) \o <<")">>
               [] st.k = "save" -> <<"save(", IF st.all THEN "all" ELSE "amount">> \o FE(st.sent) \o FE(st.e) \o <<")">>
               [] st.k = "call" -> <<"call(", st.name>> \o FList(st.args, 1, 3) \o <<")">>
FDecl(d) == <<"decl(", d.type, d.name>> \o (IF d.origin.k = "none" THEN <<>> ELSE <<"=", d.origin.name>> \o FList(d.origin.args, 1, 3)) \o <<")">>
RECURSIVE FDecls(_,_), FStmts(_,_)
FDecls(ds, i) == IF i > Len(ds) THEN <<>> ELSE FDecl(ds[i]) \o FDecls(ds, i + 1)
FStmts(ss, i) == IF i > Len(ss) THEN <<>> ELSE FStmt(ss[i]) \o FStmts(ss, i + 1)
FProg(p) == FDecls(p.vars, 1) \o FStmts(p.stmts, 1)

=============================================================================
