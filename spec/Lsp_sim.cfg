SPECIFICATION Spec
CONSTANTS NUris = 3
 NTexts = 5
 NProbes = 3
 MaxLen = 12
 MultiChange = TRUE
INVARIANTS C19_LatestOfRightDoc C19_DocsIsLast EmitInv
CHECK_DEADLOCK FALSE
