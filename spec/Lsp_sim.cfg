SPECIFICATION Spec
CONSTANTS NUris = 3
 NTexts = 3
 NProbes = 3
 MaxLen = 12
 MultiChange = TRUE
INVARIANTS C19_LatestOfRightDoc C19_DocsIsLast EmitInv
CHECK_DEADLOCK FALSE
