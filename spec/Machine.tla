------------------------------ MODULE Machine ------------------------------
(***************************************************************************)
(* One interpreter run as a state machine shaped like RunProgram: parse    *)
(* the variables (store calls for meta() / balance() / overdraft()         *)
(* origins), preload the balances of every bounded source and saved        *)
(* account, execute the statements on the CACHE, finish or fail.           *)
(*                                                                         *)
(* The environment is the store: at every call it chooses, independently,  *)
(* how it answers (exact: exactly the pairs asked; sparse: zero entries    *)
(* omitted; superset: its whole content) or whether the call fails.        *)
(*                                                                         *)
(* Model-checked here (bounded program family x contents x all reply       *)
(* shapes x all fault positions):                                          *)
(*   C10  world is never asked for; whatever the store's behaviour the     *)
(*        outcome is Sem!Run on the full content (so every balance that    *)
(*        matters was asked for and nothing learned was forgotten);        *)
(*   C12  no path from a failed store call to a result;                    *)
(*   C09/C01/C02 at the level of the cache.                                *)
(* CONSTANT Merge = "merge" is the protocol the properties need (a reply's *)
(* entry for @world is ignored); "mergeworld" (the tree before D18's fix)  *)
(* and                                                                     *)
(* "replace" (the pinned tree's `st.CachedBalances = balances`) is kept as *)
(* a named deviation: TLC refutes C10 for it.                              *)
(* With Emit = TRUE every finished behaviour is printed as one JSON line   *)
(* (program, content, reply shapes, fault position, outcome) and replayed  *)
(* into the real interpreter by the harness.                               *)
(***************************************************************************)
EXTENDS Sem, Json, SequencesExt

CONSTANTS Merge,     \* "merge" | "replace"
          Faults,    \* TRUE: the store may fail at any call
          Emit,      \* TRUE: print finished behaviours
          Scope      \* "quick" | "thorough"

A == "USD"
Mon(n)  == [k |-> "mon", asset |-> [k |-> "asset", v |-> A], amt |-> [k |-> "num", v |-> n]]
Acc(x)  == [k |-> "acct", v |-> x]
Var(x)  == [k |-> "var", name |-> x]
Ast     == [k |-> "asset", v |-> A]
Str(x)  == [k |-> "str", v |-> x]

\* ---- program family: declarations with origins, sends and saves over accounts a, b
Big == Scope = "thorough"
NoOrigin == [k |-> "none"]
Call(nm, args) == [k |-> "call", name |-> nm, args |-> args]
DeclFam ==
  { <<>>,
    << [type |-> "monetary", name |-> "m", origin |-> Call("balance", <<Acc("a"), Ast>>), val |-> [t |-> "none"]] >>,
    << [type |-> "monetary", name |-> "m", origin |-> Call("balance", <<Acc("b"), Ast>>), val |-> [t |-> "none"]] >>,
    << [type |-> "account", name |-> "x", origin |-> Call("meta", <<Acc("m"), Str("k")>>), val |-> VAcct("a")] >>,
    << [type |-> "account", name |-> "x", origin |-> Call("meta", <<Acc("m"), Str("k")>>), val |-> VAcct("b")],
       [type |-> "monetary", name |-> "m", origin |-> Call("balance", <<Var("x"), Ast>>), val |-> [t |-> "none"]] >>,
    << [type |-> "monetary", name |-> "m", origin |-> Call("balance", <<Acc("a"), Ast>>), val |-> [t |-> "none"]],
       [type |-> "monetary", name |-> "n", origin |-> Call("balance", <<Acc("b"), Ast>>), val |-> [t |-> "none"]] >>,
    << [type |-> "account", name |-> "x", origin |-> NoOrigin, val |-> VAcct("b")] >>,
    << [type |-> "monetary", name |-> "m", origin |-> Call("balance", <<Acc(WORLD), Ast>>), val |-> [t |-> "none"]] >>,
    \* an origin that fetches, then balance(@world, ..): whatever the first reply volunteered, the second reads 0
    << [type |-> "monetary", name |-> "n", origin |-> Call("balance", <<Acc("a"), Ast>>), val |-> [t |-> "none"]],
       [type |-> "monetary", name |-> "m", origin |-> Call("balance", <<Acc(WORLD), Ast>>), val |-> [t |-> "none"]] >>,
    << [type |-> "account", name |-> "x", origin |-> NoOrigin, val |-> VAcct(WORLD)] >> }
HasVar(ds, nm) == \E i \in 1..Len(ds) : ds[i].name = nm
LeafFam(ds) == {[k |-> "acct", e |-> Acc(x)] : x \in {"a", "b", WORLD}}
          \cup {[k |-> "ovd", e |-> Acc("a"), b |-> Mon(3)], [k |-> "ovdu", e |-> Acc("b")]}
          \cup (IF Scope = "quick" THEN {} ELSE {[k |-> "ovd", e |-> Acc(WORLD), b |-> Mon(3)]})     \* a bounded overdraft on world: still never asked for
          \cup (IF HasVar(ds, "x") THEN {[k |-> "acct", e |-> Var("x")]} ELSE {})
Tiny == Scope = "tiny"
SrcFam(ds) == LeafFam(ds) \cup {[k |-> "seq", s |-> <<x, y>>] : x \in (IF Tiny THEN {l \in LeafFam(ds) : l.k = "acct"} ELSE LeafFam(ds)), y \in LeafFam(ds)}
                     \cup {[k |-> "cap", c |-> Mon(2), s |-> x] : x \in (IF Tiny THEN {} ELSE LeafFam(ds))}
DstFam == IF Tiny THEN {[k |-> "acct", e |-> Acc("d")]} ELSE {[k |-> "acct", e |-> Acc(x)] : x \in {"d", "a"}}
SentFam(ds) == (IF Tiny THEN {Mon(4)} ELSE {Mon(n) : n \in {1, 4}}) \cup (IF HasVar(ds, "m") THEN {Var("m")} ELSE {})
SendFam(ds) == {[k |-> "send", all |-> FALSE, sent |-> sv, src |-> s, dst |-> d] : sv \in SentFam(ds), s \in SrcFam(ds), d \in DstFam}
          \cup {[k |-> "send", all |-> TRUE, sent |-> Ast, src |-> s, dst |-> d] : s \in SrcFam(ds), d \in DstFam}
SaveFam == {[k |-> "save", all |-> FALSE, sent |-> Mon(2), e |-> Acc("a")], [k |-> "save", all |-> TRUE, sent |-> Ast, e |-> Acc("b")],
            [k |-> "save", all |-> FALSE, sent |-> Mon(2), e |-> Acc(WORLD)]}
StmtSeqs(ds) == {<<s>> : s \in SendFam(ds)}
           \cup (IF Big THEN {<<v, s>> : v \in SaveFam, s \in SendFam(ds)} \cup {<<s, t>> : s \in SendFam(ds), t \in {u \in SendFam(ds) : u.src.k # "seq"}}
                 ELSE IF Tiny THEN {<<v, s>> : v \in SaveFam, s \in {u \in SendFam(ds) : u.src.k \notin {"cap", "seq"}}}
                 ELSE {<<v, s>> : v \in SaveFam, s \in {u \in SendFam(ds) : u.src.k # "cap"}})
Contents == IF Tiny THEN {[bal |-> [a |-> [USD |-> 5], b |-> [USD |-> 0]]], [bal |-> [a |-> [USD |-> 0], b |-> [USD |-> 4]]]}
            ELSE {[bal |-> [a |-> [USD |-> x], b |-> [USD |-> y]]] : x \in {0, 5}, y \in (IF Big THEN {-3, 0, 4} ELSE {0, 4})}
                 \* a store that also holds an entry for @world (a ledger does)
                 \cup {[bal |-> [a |-> [USD |-> 5], b |-> [USD |-> y], world |-> [USD |-> w]]] : y \in {0, 4}, w \in (IF Big THEN {-6, 7} ELSE {7})}
Modes == {"exact", "sparse", "superset"}

VARIABLES prog,     \* [vars, stmts, bal, flagovd]  (a case record in the sense of Sem!Run)
          phase,    \* "pick" | "vars" | "preload" | "exec" | "done"
          vi, si,
          env,
          pending,  \* set of <<account, asset>> pairs batched for the next balance query
          cache,    \* known balances: function pair -> Int
          calls,    \* history of store calls: [kind, query, mode]
          S,        \* [err, vis (unused), post, tx, am]
          status,   \* "" | "ok" | error class
          faultAt   \* 0 = no fault, k = the k-th store call fails
vars == <<prog, phase, vi, si, env, pending, cache, calls, S, status, faultAt>>

Init == /\ prog = [vars |-> <<>>, stmts |-> <<>>, bal |-> <<>>, flagovd |-> TRUE]
        /\ phase = "pick" /\ vi = 1 /\ si = 1 /\ env = <<>> /\ pending = {} /\ cache = <<>> /\ calls = <<>>
        /\ S = [err |-> "", vis |-> <<>>, post |-> <<>>, tx |-> <<>>, am |-> <<>>] /\ status = ""
        /\ faultAt \in (IF Faults THEN 0..3 ELSE {0})

Pick == /\ phase = "pick"
        /\ \E ds \in DeclFam : \E ss \in StmtSeqs(ds) : \E c \in Contents :
              prog' = [vars |-> ds, stmts |-> ss, bal |-> c.bal, flagovd |-> TRUE]
        /\ phase' = "vars"
        /\ UNCHANGED <<vi, si, env, pending, cache, calls, S, status, faultAt>>

\* ---- the store ---------------------------------------------------------
\* what the store holds (its own entry for @world included, if it has one)
Content(p) == IF p[1] \in DOMAIN prog.bal /\ p[2] \in DOMAIN prog.bal[p[1]] THEN prog.bal[p[1]][p[2]] ELSE 0
AllPairs == UNION {{<<a, as>> : as \in DOMAIN prog.bal[a]} : a \in DOMAIN prog.bal}
\* the query actually sent: every pending pair of an account that has at least one pending pair not yet known
QueryOf(pend, known) == {p \in pend : \E q \in pend : q[1] = p[1] /\ q \notin known}
Reply(mode, q) ==
  CASE mode = "exact"    -> [p \in q |-> Content(p)]
    [] mode = "sparse"   -> [p \in {x \in q : Content(x) # 0} |-> Content(p)]
    [] mode = "superset" -> [p \in AllPairs \cup q |-> Content(p)]
\* "merge": what is known is kept, what the reply adds is learned, except an entry for @world (never asked for:
\*          a store that volunteers one must not make balance(@world, X) store-dependent);
\* "mergeworld": the same without that exception (the tree before the fix of D18: TLC refutes C10);
\* "replace": the pinned tree, the reply REPLACES the cache (TLC refutes C10).
NoWorld(rep) == [p \in {q \in DOMAIN rep : q[1] # WORLD} |-> rep[p]]
MergeInto(c, rep) == [p \in DOMAIN c \cup DOMAIN rep |-> IF p \in DOMAIN c THEN c[p] ELSE rep[p]]
Merged(c, rep) == CASE Merge = "merge" -> MergeInto(c, NoWorld(rep))
                    [] Merge = "mergeworld" -> MergeInto(c, rep)
                    [] OTHER -> rep
Failing == faultAt = Len(calls) + 1

\* run the batched balance query (one store call, or none when everything is known)
\* returns [called, cache, calls, failed]
Fetch(pend, c, cs, mode) ==
  LET q == QueryOf(pend, DOMAIN c) IN
  IF q = {} THEN [called |-> FALSE, cache |-> c, calls |-> cs, failed |-> FALSE]
  ELSE IF faultAt = Len(cs) + 1 THEN [called |-> TRUE, cache |-> c, calls |-> Append(cs, [kind |-> "bal", q |-> SetToSeq(q), mode |-> "fail"]), failed |-> TRUE]
  ELSE [called |-> TRUE, cache |-> Merged(c, Reply(mode, q)), calls |-> Append(cs, [kind |-> "bal", q |-> SetToSeq(q), mode |-> mode]), failed |-> FALSE]

Fail(cls) == /\ status' = cls /\ phase' = "done"
             /\ S' = [err |-> cls, vis |-> <<>>, post |-> <<>>, tx |-> <<>>, am |-> <<>>]

\* ---- variables -----------------------------------------------------------
VarStep ==
  /\ phase = "vars" /\ vi <= Len(prog.vars)
  /\ LET d == prog.vars[vi] IN
     IF d.origin.k = "none" THEN
        /\ env' = Upd(env, d.name, d.val) /\ vi' = vi + 1
        /\ UNCHANGED <<prog, phase, si, pending, cache, calls, S, status, faultAt>>
     ELSE LET args == EvalAll(d.origin.args, env) IN
       IF d.origin.name = "meta" THEN
          \* one GetAccountsMetadata call; the reply shape does not matter for the value read
          \E mode \in {"exact", "superset"} :
            IF Failing
            THEN /\ calls' = Append(calls, [kind |-> "meta", q |-> <<>>, mode |-> "fail"]) /\ Fail(E_QueryMeta)
                 /\ UNCHANGED <<prog, vi, si, env, pending, cache, faultAt>>
            ELSE /\ calls' = Append(calls, [kind |-> "meta", q |-> <<>>, mode |-> mode])
                 /\ env' = Upd(env, d.name, d.val) /\ vi' = vi + 1
                 /\ UNCHANGED <<prog, phase, si, pending, cache, S, status, faultAt>>
       ELSE \* balance(account, asset)
          \E mode \in Modes :
            LET p == <<args[1].v, args[2].v>>
                pend == IF p[1] = WORLD THEN pending ELSE pending \cup {p}
                f == Fetch(pend, cache, calls, mode) IN
            IF f.failed
            THEN /\ calls' = f.calls /\ Fail(E_QueryBalance) /\ UNCHANGED <<prog, vi, si, env, pending, cache, faultAt>>
            ELSE LET b == Get(f.cache, p) IN
                 /\ calls' = f.calls /\ cache' = f.cache
                 /\ pending' = IF f.called THEN {} ELSE pend
                 /\ IF b < 0 THEN Fail(E_NegBalance) /\ UNCHANGED <<vi, env>>
                    ELSE env' = Upd(env, d.name, VMon(p[2], b)) /\ vi' = vi + 1 /\ UNCHANGED <<phase, S, status>>
                 /\ UNCHANGED <<prog, si, faultAt>>

\* ---- preload: static traversal of the statements -----------------------
RECURSIVE Needs(_,_)
\* pairs whose balance a source may read: every bounded leaf; never world; unbounded-overdraft leaves are skipped
Needs(s, as) ==
  CASE s.k = "acct" -> LET a == Eval(s.e, env) IN IF a.v = WORLD THEN {} ELSE {<<a.v, as>>}
    [] s.k = "ovd"  -> LET a == Eval(s.e, env) IN IF a.v = WORLD THEN {} ELSE {<<a.v, as>>}
    [] s.k = "ovdu" -> {}
    [] s.k = "seq"  -> UNION {Needs(s.s[i], as) : i \in 1..Len(s.s)}
    [] s.k = "cap"  -> Needs(s.s, as)
    [] s.k = "allot" -> UNION {Needs(s.it[i].s, as) : i \in 1..Len(s.it)}
SentAsset(st) == LET v == Eval(st.sent, env) IN IF v.t = "asset" THEN v.v ELSE v.a
StmtNeeds(st) == IF st.k = "send" THEN Needs(st.src, SentAsset(st))
                 ELSE IF st.k = "save" THEN LET a == Eval(st.e, env) IN IF a.v = WORLD THEN {} ELSE {<<a.v, SentAsset(st)>>}
                 ELSE {}
Preload ==
  /\ phase = "vars" /\ vi > Len(prog.vars)
  /\ \E mode \in Modes :
       LET pend == pending \cup UNION {StmtNeeds(prog.stmts[i]) : i \in 1..Len(prog.stmts)}
           f == Fetch(pend, cache, calls, mode) IN
       IF f.failed THEN /\ calls' = f.calls /\ Fail(E_QueryBalance) /\ UNCHANGED <<prog, vi, si, env, pending, cache, faultAt>>
       ELSE /\ calls' = f.calls /\ cache' = f.cache /\ pending' = IF f.called THEN {} ELSE pend
            /\ phase' = "exec" /\ UNCHANGED <<prog, vi, si, env, S, status, faultAt>>

\* ---- execution on the cache ----------------------------------------------
Exec ==
  /\ phase = "exec" /\ si <= Len(prog.stmts)
  /\ LET nx == Step(prog.stmts[si], env, [S EXCEPT !.vis = cache]) IN
     IF nx.err # "" THEN Fail(nx.err) /\ UNCHANGED <<prog, vi, si, env, pending, cache, calls, faultAt>>
     ELSE /\ S' = nx /\ cache' = nx.vis /\ si' = si + 1
          /\ UNCHANGED <<prog, phase, vi, env, pending, calls, status, faultAt>>
Finish ==
  /\ phase = "exec" /\ si > Len(prog.stmts)
  /\ status' = "ok" /\ phase' = "done"
  /\ UNCHANGED <<prog, vi, si, env, pending, cache, calls, S, faultAt>>

Next == Pick \/ VarStep \/ Preload \/ Exec \/ Finish
Spec == Init /\ [][Next]_vars

\* ---- properties ---------------------------------------------------------
Ref == Run(prog)                                   \* the meaning on the full content
Faulted == \E i \in 1..Len(calls) : calls[i].mode = "fail"
C10_WorldNeverAsked == \A i \in 1..Len(calls) : \A j \in 1..Len(calls[i].q) : calls[i].q[j][1] # WORLD
C10_StoreIndependent ==
  (phase = "done" /\ ~Faulted) =>
     /\ (status = "ok") <=> (Ref.err = "")
     /\ status = "ok" => S.post = Ref.post
     /\ status # "ok" => status = Ref.err
\* what has been learned is not forgotten: known pairs only grow (action property)
C10_KnownGrows == [][DOMAIN cache \subseteq DOMAIN cache']_vars
\* every value in the cache is the store's value adjusted by the run's own postings and reservations is implied by
\* C10_StoreIndependent; here: values learned from the store are never overwritten by a later reply
C10_ValuesKept == [][\A p \in DOMAIN cache : (phase \in {"vars"} /\ phase' \in {"vars", "exec"} /\ p \in DOMAIN cache') => cache'[p] = cache[p]]_vars
C12_FaultIsError ==
  (phase = "done" /\ Faulted) => /\ status \in {E_QueryBalance, E_QueryMeta}
                                 /\ S.post = <<>> /\ S.tx = <<>> /\ S.am = <<>>
C12_FaultReached == (phase = "done" /\ faultAt > 0 /\ faultAt <= Len(calls)) => Faulted
C12_Atomic == (phase = "done" /\ status # "ok") => (S.post = <<>> /\ S.tx = <<>> /\ S.am = <<>>)
\* termination variant
Variant == (IF phase = "pick" THEN 100 ELSE 0) + (IF phase = "done" THEN 0 ELSE 10 + 3 * (Len(prog.vars) + 1 - vi) + 2 * (Len(prog.stmts) + 1 - si) + (IF phase = "vars" THEN 3 ELSE 0))
Terminates == [][Variant' < Variant]_vars

EmitInv == (Emit /\ phase = "done") =>
   PrintT("GEN " \o ToJson([vars |-> prog.vars, stmts |-> prog.stmts, bal |-> prog.bal,
                            modes |-> [i \in 1..Len(calls) |-> calls[i].mode], fault |-> faultAt, status |-> status]))
=============================================================================
