SPECIFICATION Spec
CONSTANT MaxCalls = 4
INVARIANT EmitInv
CHECK_DEADLOCK FALSE
