SPECIFICATION Spec
CONSTANTS Scope = "quick"
INVARIANTS EmitInv
CHECK_DEADLOCK FALSE
