SPECIFICATION Spec
CONSTANTS MaxDen = 5
 MaxLen = 4
 MaxN = 30
INVARIANTS C06_Sem C06_ScaleLemma
CHECK_DEADLOCK FALSE
