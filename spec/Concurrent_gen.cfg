SPECIFICATION Spec
CONSTANTS Merge = "deep"
 Procs = {1, 2}
 NStmts = 1
 Amt = 2
 A0 = 20
 Emit = TRUE
INVARIANTS EmitInv
CHECK_DEADLOCK FALSE
