------------------------------ MODULE EditTrace ------------------------------
(***************************************************************************)
(* C14 / C18: the real parser and the real editor analyses on the          *)
(* documents printed by Edit.tla.  Each line carries the text, its line    *)
(* table (computed by the printing machine), whether the lexemes are whole *)
(* tokens and whether Grammar!Accepts the token sequence, and what the     *)
(* real code did.                                                          *)
(***************************************************************************)
EXTENDS Integers, Sequences, FiniteSets, TLC, Json, IOUtils
Trace == ndJsonDeserialize(IOEnv.TRACE)
N == Len(Trace)
VARIABLE l
Init == l \in 1..N
Next == UNCHANGED l
Spec == Init /\ [][Next]_l
T == Trace[l]
Report(prop, what) ==
  /\ TLCSet(2, TLCGet(2) + 1)
  /\ PrintT("VIOL " \o ToJson([prop |-> prop, id |-> T.n, line |-> l, what |-> what]))
Check(prop, what, cond) == cond \/ Report(prop, what)
\* a position inside the document or at its end (lines is the table of line lengths, 0-based positions)
InDoc(ln, ch) == ln >= 0 /\ ln < Len(T.lines) /\ ch >= 0 /\ ch <= T.lines[ln + 1]
NotBefore(sl, sc, el, ec) == el > sl \/ (el = sl /\ ec >= sc)
O == T.obs
Unspec == "unspec" \in DOMAIN T /\ T.unspec
C14_Total ==
  /\ Check("C14", "the parser panicked", O.panic = "")
  /\ Check("C14", "the parser did not terminate", ~O.timeout)
  /\ Check("C14", "rendering the errors against the source panicked", O.showpanic = "")
  /\ Check("C14", "a syntactically valid script was reported with errors", (O.panic = "" /\ ~O.timeout /\ ~Unspec /\ T.accepts) => O.nerr = 0)
  /\ Check("C14", "an input outside the language (characters no token starts with, or tokens that form no program) was accepted without any error",
           (O.panic = "" /\ ~O.timeout /\ ~Unspec /\ ~T.accepts) => O.nerr > 0)
  /\ Check("C14", "after parsing this text a fixed valid script is reported with errors (state kept between calls of the parser)",
           ("sentinel" \in DOMAIN O) => O.sentinel)
  /\ Check("C14", "a reported error starts outside the text",
           (O.panic = "" /\ ~O.timeout) => \A i \in 1..Len(O.errs) : InDoc(O.errs[i][1], O.errs[i][2]))
C18_Survives ==
  /\ Check("C18", "static analysis / symbols / hover / definition panicked", O.panic = "")
  /\ Check("C18", "the analysis did not terminate", ~O.timeout)
  /\ Check("C18", "a diagnostic starts outside the document or ends before it starts",
           (O.panic = "" /\ ~O.timeout) => \A i \in 1..Len(O.diags) : InDoc(O.diags[i][3], O.diags[i][4]) /\ NotBefore(O.diags[i][3], O.diags[i][4], O.diags[i][5], O.diags[i][6]))
  /\ Check("C18", "analysing the same text twice gives different diagnostics or symbols", (O.panic = "" /\ ~O.timeout) => O.deterministic)
  /\ Check("C18", "analysing this document changed what the analysis says about another, fixed text (state shared between analyses)",
           ("sentinel" \in DOMAIN O) => O.sentinel)
Post == TLCGet(2) = 0
ASSUME TLCSet(2, 0)
=============================================================================
