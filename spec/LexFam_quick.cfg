SPECIFICATION Spec
CONSTANTS N = 3
INVARIANTS Emit
CHECK_DEADLOCK FALSE
