------------------------------ MODULE RoundTrip ------------------------------
(***************************************************************************)
(* C13 (c) at design level: a two-run machine.  Run 1 writes the rendering *)
(* of a value to the account metadata; run 2 reads that text back as a     *)
(* value of the same type and writes it again.  Model-checked: reading the *)
(* rendering yields the identical value (portions up to reduction), and    *)
(* the second text equals the first, for a bounded family of values of all *)
(* six types (both signs, zero, assets with '/', portions 0..1).           *)
(***************************************************************************)
EXTENDS Sem, Lex
CONSTANTS MaxNum, MaxDen
Nums == (0 - MaxNum)..MaxNum
NumVals == {VNum(n) : n \in Nums}
MonVals == {VMon(a, n) : a \in {"USD", "EUR/2", "X/0"}, n \in Nums}
PorVals == {VPor(n, d) : n \in 0..MaxDen, d \in 1..MaxDen}
TxtVals == {VAcct(x) : x \in {"a", "users:001", "world"}} \cup {VAsset(x) : x \in {"USD", "EUR/2"}} \cup {VStr(x) : x \in {"", "hello world", "1/2", "USD 5"}}

IntOf(s) == IF Len(s) > 0 /\ SubSeq(s, 1, 1) = "-" THEN 0 - NatOf(SubSeq(s, 2, Len(s)), 1, 0) ELSE NatOf(s, 1, 0)
\* reading a text as a value of a type (what parseVar does for well-formed texts)
Read(t, s) ==
  CASE t = "num" -> VNum(IntOf(s))
    [] t = "mon" -> LET sp == Find(s, " ", 1) IN VMon(SubSeq(s, 1, sp - 1), IntOf(SubSeq(s, sp + 1, Len(s))))
    [] t = "portion" -> LET sl == Find(s, "/", 1) IN VPor(NatOf(SubSeq(s, 1, sl - 1), 1, 0), NatOf(SubSeq(s, sl + 1, Len(s)), 1, 0))
    [] t = "acct" -> VAcct(s) [] t = "asset" -> VAsset(s) [] t = "str" -> VStr(s)
SameValue(v, w) == IF v.t = "portion" THEN w.t = "portion" /\ v.n * w.d = w.n * v.d ELSE v = w

VARIABLES phase, v, meta, back, again
vars == <<phase, v, meta, back, again>>
Init == /\ phase = "write" /\ meta = "" /\ back = VStr("") /\ again = ""
        /\ \/ v \in NumVals \/ v \in MonVals \/ v \in TxtVals
           \/ (v \in PorVals /\ v.n <= v.d)      \* one homogeneous set per type: TLC cannot compare an integer field with a string field
Run1 == phase = "write" /\ meta' = Render(v) /\ phase' = "read" /\ UNCHANGED <<v, back, again>>
Run2 == phase = "read" /\ back' = Read(v.t, meta) /\ again' = Render(Read(v.t, meta)) /\ phase' = "done" /\ UNCHANGED <<v, meta>>
Next == Run1 \/ Run2
Spec == Init /\ [][Next]_vars
C13_ReadBack == phase = "done" => (SameValue(v, back) /\ again = meta)
=============================================================================
