SPECIFICATION Spec
INVARIANTS C06_Scaled
POSTCONDITION Post
CHECK_DEADLOCK FALSE
