SPECIFICATION Spec
CONSTANTS Merge = "merge"
 Faults = TRUE
 Emit = TRUE
 Scope = "tiny"
INVARIANTS EmitInv

CHECK_DEADLOCK FALSE
