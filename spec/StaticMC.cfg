SPECIFICATION Spec
INVARIANTS C17_Soundness
CHECK_DEADLOCK FALSE
