SPECIFICATION Spec
INVARIANTS C13_Portions C13_RoundTrip
POSTCONDITION Post
CHECK_DEADLOCK FALSE
