------------------------------- MODULE SaveApa -------------------------------
(***************************************************************************)
(* C08 for UNBOUNDED numbers: DrawApa.tla preceded by a phase of `save`    *)
(* statements.  Up to K saves (each on any of the A accounts, an amount    *)
(* s >= 0 or everything) reduce the visible balance by the reservation     *)
(* formula of Sem.tla - a positive balance goes down to max(0, b - s), a   *)
(* balance that is zero or negative stays as it is - and then the greedy   *)
(* draw of a later send runs over M listed sources.  All numbers are       *)
(* symbolic integers.  Apalache discharges the inductive invariant, which  *)
(* gives for every size of number:                                         *)
(*  - the balance a later statement sees (base) is never above the         *)
(*    starting balance, never raised when it was negative, never pushed    *)
(*    below zero by a save;                                                *)
(*  - the later draw never takes an account below min(base, -grant): what  *)
(*    was saved cannot be moved without an overdraft grant;                *)
(*  - the draw lemmas of DrawApa (C03, C04) hold on the reduced balance.   *)
(***************************************************************************)
EXTENDS Integers, Apalache

M == 3      \* listed sources
K == 2      \* save statements before the send
A == 2      \* distinct accounts

VARIABLES
  \* @type: Int -> Int;
  acc,      \* slot -> account
  \* @type: Int -> Int;
  ovd,      \* slot -> overdraft granted by that slot (>= 0; 0 = none)
  \* @type: Int -> Int;
  cap,      \* slot -> enclosing cap (any integer; a slot without cap carries n0)
  \* @type: Int -> Int;
  bal0,     \* account -> starting balance (history)
  \* @type: Int -> Int;
  base,     \* account -> balance visible after the saves (history once the draw has begun)
  \* @type: Int;
  ks,       \* saves done so far
  \* @type: Str;
  pc,       \* "save" | "draw"
  \* @type: Int -> Int;
  vis,      \* account -> balance still visible to this statement
  \* @type: Int -> Int;
  grant,    \* account -> largest overdraft granted by the slots passed so far (history)
  \* @type: Int;
  i,        \* next slot
  \* @type: Int;
  need,     \* still to draw
  \* @type: Int;
  n0,       \* the amount of the statement (history)
  \* @type: Int;
  total,    \* drawn so far
  \* @type: Bool;
  lim       \* history: every slot passed so far gave exactly its own limit

Max2(x, y) == IF x >= y THEN x ELSE y
Min2(x, y) == IF x <= y THEN x ELSE y

Slots == 1..M
Accts == 1..A
Shape ==
  /\ DOMAIN acc = Slots /\ DOMAIN ovd = Slots /\ DOMAIN cap = Slots
  /\ DOMAIN bal0 = Accts /\ DOMAIN vis = Accts /\ DOMAIN grant = Accts /\ DOMAIN base = Accts
  /\ \A s \in Slots : acc[s] \in Accts /\ ovd[s] >= 0

Init ==
  /\ acc = Gen(M) /\ ovd = Gen(M) /\ cap = Gen(M) /\ bal0 = Gen(A) /\ vis = Gen(A) /\ grant = Gen(A) /\ base = Gen(A)
  /\ Shape
  /\ vis = bal0 /\ base = bal0 /\ grant = [a \in Accts |-> 0]
  /\ ks = 0 /\ pc = "save"
  /\ n0 = Gen(1) /\ n0 >= 0 /\ need = n0 /\ total = 0 /\ i = 1 /\ lim = TRUE

OwnLimit(s) == Min2(Max2(0, cap[s]), Max2(0, vis[acc[s]] + ovd[s]))
Same == UNCHANGED <<acc, ovd, cap, bal0, n0>>
\* save [A s] from @a  /  save [A *] from @a : no posting, the visible balance goes down but not below zero, a negative one stays
Save ==
  /\ pc = "save" /\ ks < K
  /\ \E a \in Accts : \E all \in BOOLEAN : \E s \in Nat :
       /\ LET nb == IF vis[a] <= 0 THEN vis[a] ELSE IF all THEN 0 ELSE Max2(0, vis[a] - s) IN
          /\ vis' = [vis EXCEPT ![a] = nb] /\ base' = [base EXCEPT ![a] = nb]
  /\ ks' = ks + 1
  /\ UNCHANGED <<grant, i, need, total, lim, pc>> /\ Same
Begin == pc = "save" /\ pc' = "draw" /\ UNCHANGED <<vis, base, grant, i, need, total, lim, ks>> /\ Same
Step ==
  /\ pc = "draw"
  /\ i <= M
  /\ LET a == acc[i]
         g == Min2(Max2(0, Min2(need, cap[i])), Max2(0, vis[a] + ovd[i])) IN
     /\ vis' = [vis EXCEPT ![a] = @ - g]
     /\ grant' = [grant EXCEPT ![a] = Max2(@, ovd[i])]
     /\ need' = need - g /\ total' = total + g
     /\ lim' = (lim /\ g = OwnLimit(i))
  /\ i' = i + 1
  /\ UNCHANGED <<base, ks, pc>> /\ Same
Next == Save \/ Begin \/ Step

\* vacuity guard (must be refuted): a save that clamps at zero whatever the balance was - defect D5 of the pinned tree
\* (`save` lifted a negative balance to 0)
SaveBad ==
  /\ pc = "save" /\ ks < K
  /\ \E a \in Accts : \E s \in Nat :
       /\ LET nb == Max2(0, vis[a] - s) IN
          /\ vis' = [vis EXCEPT ![a] = nb] /\ base' = [base EXCEPT ![a] = nb]
  /\ ks' = ks + 1
  /\ UNCHANGED <<grant, i, need, total, lim, pc>> /\ Same
NextBad == SaveBad \/ Begin \/ Step

IndInv ==
  /\ Shape
  /\ i \in 1..(M + 1) /\ ks \in 0..K /\ pc \in {"save", "draw"}
  /\ (pc = "save" => (i = 1 /\ total = 0 /\ need = n0 /\ lim /\ vis = base /\ \A a \in Accts : grant[a] = 0))
  \* C08: what a later statement sees
  /\ \A a \in Accts : base[a] <= bal0[a] /\ base[a] >= Min2(bal0[a], 0) /\ (bal0[a] <= 0 => base[a] = bal0[a])
  /\ n0 >= 0 /\ need >= 0 /\ total >= 0 /\ need + total = n0
  /\ \A a \in Accts : grant[a] >= 0 /\ vis[a] <= base[a]
  \* C08 / C01 on the reduced balance
  /\ \A a \in Accts : vis[a] >= Min2(base[a], 0 - grant[a])       \* saved funds are not moved without a grant
  \* C04
  /\ (need > 0 => lim)
Final == i = M + 1 =>
  \/ total = n0                               \* exactly the amount ...
  \/ (total < n0 /\ lim)                      \* ... or a genuine lack of funds (the execution fails)
IndInvFinal == IndInv /\ Final

\* vacuity guard (must be refuted within K + 1 + M steps): a run that ends short of the amount after two saves, one of which left part of a positive balance
NeverShort == ~(i = M + 1 /\ total < n0 /\ total > 0 /\ ks = 2 /\ base[acc[1]] < bal0[acc[1]] /\ base[acc[1]] > 0)

IndInit ==
  /\ acc = Gen(M) /\ ovd = Gen(M) /\ cap = Gen(M) /\ bal0 = Gen(A) /\ vis = Gen(A) /\ grant = Gen(A) /\ base = Gen(A)
  /\ ks = Gen(1) /\ pc \in {"save", "draw"}
  /\ i = Gen(1) /\ need = Gen(1) /\ n0 = Gen(1) /\ total = Gen(1)
  /\ lim \in BOOLEAN
  /\ IndInvFinal
=============================================================================
